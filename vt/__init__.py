import sys
if hasattr(sys, 'set_int_max_str_digits'):
    sys.set_int_max_str_digits(0)
