"""Random layered logic programs (no recursion except a fixed list library) shared by C07/C08/C09/C39-style checks.

A program is a dict (name, arity) -> clauses in the AST of vt.miniprolog."""
from .terms import mkint, mkatom, mkc, mklist, mkvar, NIL

# cuts inside \+ are off in random programs: on this tree they hit several compiler defects (K51, K52 and unnamed relatives);
# C07 runs a fixed set of local-cut clauses instead
LOCAL_CUTS = False
CONSTS = [mkatom('a'), mkatom('b'), mkatom('c'), mkint(1), mkint(2), mkc('f', mkatom('a')), mklist([mkatom('a')]), NIL]
X, Y, Z, W = mkvar(1), mkvar(2), mkvar(3), mkvar(4)

# fixed recursive library (list predicates), safe for the query modes generated below
LIB = {
    ('app', 3): [((NIL, X, X), ('true',)),
                 ((('l', (Y,), Z), X, ('l', (Y,), W)), ('call', 'app', (Z, X, W)))],
    ('mem', 2): [((X, ('l', (X,), Y)), ('true',)),
                 ((X, ('l', (Y,), Z)), ('call', 'mem', (X, Z)))],
    ('len', 2): [((NIL, mkint(0)), ('true',)),
                 ((('l', (X,), Y), Z), ('and', [('call', 'len', (Y, W)), ('is', Z, mkc('+', W, mkint(1)))]))],
    ('rev', 3): [((NIL, X, X), ('true',)),
                 ((('l', (X,), Y), Z, W), ('call', 'rev', (Y, ('l', (X,), Z), W)))],
}


def rterm(rng, vars_, p_var=0.6, structs=False):
    # structs: allow f(Var); off in clause bodies because of known finding K43 (see C07)
    r = rng.random()
    if r < p_var and vars_:
        return rng.choice(vars_)
    if r < p_var + 0.05 and vars_ and structs:
        return mkc('f', rng.choice(vars_))
    return rng.choice(CONSTS)


def rgoal(rng, level, sigs, vars_, depth=0, allow_cut=True):
    """a body goal that may call predicates of levels < level"""
    r = rng.random()
    lower = [(n, a) for (n, a, l) in sigs if l < level]
    if r < 0.5 or depth >= 2:
        n, a = rng.choice(lower)
        return ('call', n, tuple(rterm(rng, vars_, 0.75) for _ in range(a)))
    if r < 0.62:
        # only head variables in tests: a local variable whose first occurrence is an inlined comparison hits known finding K42
        return ('test', rng.choice(['==', '\\==', '@<', '@>=']), rterm(rng, vars_[:2], 0.8), rterm(rng, vars_[:2], 0.5))
    if r < 0.72:
        return ('unify', rng.choice(vars_), rterm(rng, vars_, 0.3))
    if r < 0.82:
        a1, a2 = rgoal(rng, level, sigs, vars_, depth + 1, allow_cut), rgoal(rng, level, sigs, vars_, depth + 1, allow_cut)
        if a2[0] == 'not':
            a2 = ('and', [a2, ('true',)])      # known finding K41, see below
        return ('or', a1, a2)
    if r < 0.92:
        cnd = rgoal(rng, level, sigs, vars_, depth + 1, False)
        # (a cut inside the condition is not generated: known finding K51, probed by C07)
        c, t, e = (cnd, rgoal(rng, level, sigs, vars_, depth + 1, allow_cut),
                   rgoal(rng, level, sigs, vars_, depth + 1, allow_cut))
        if e[0] == 'not':
            # known finding K41 (uninitialised variable after ( \+ A -> B ; \+ C )): the shape is probed separately by C07
            e = ('and', [e, ('true',)])
        return ('ite', c, t, e)
    inner = rgoal(rng, level, sigs, vars_, depth + 1, False)
    if allow_cut and LOCAL_CUTS and rng.random() < 0.35:
        # a cut inside \+ is local to the negated goal (7.8.x); goals before and after it, possibly negations themselves
        # the goal after the cut is a plain call: a negation or if-then-else there hits known finding K52 (probed by C07)
        inner = ('and', [inner, ('cut',), rgoal(rng, level, sigs, vars_, 2, False)])
    return ('not', inner)


def rprogram(rng, cuts=True, lib=False):
    """-> (program dict, sigs list of (name, arity, level))"""
    prog = {}
    sigs = [('p0', 2, 0)]
    rows = [(rng.choice(CONSTS[:6]), rng.choice(CONSTS[:6])) for _ in range(rng.randint(2, 7))]
    prog[('p0', 2)] = [((a, b), ('true',)) for a, b in rows]
    if rng.random() < 0.5:
        sigs.append(('q0', 1, 0))
        prog[('q0', 1)] = [((rng.choice(CONSTS),), ('true',)) for _ in range(rng.randint(1, 4))]
    for level, (name, arity) in ((1, ('p1', 2)), (2, ('p2', rng.choice([1, 2]))), (3, ('p3', 2))):
        clauses = []
        for _ in range(rng.randint(1, 4)):
            vars_ = [X, Y, Z]
            head = tuple((rng.choice([X, Y][:arity]) if rng.random() < 0.75 else rterm(rng, [X, Y], 0.3, True)) for _ in range(arity))
            if arity == 2 and rng.random() < 0.7:
                head = (X, Y) if rng.random() < 0.8 else (X, X)
            goals = [rgoal(rng, level, sigs, vars_) for _ in range(rng.randint(1, 3))]
            if cuts and rng.random() < 0.2:
                goals.insert(rng.randint(1, len(goals)), ('cut',))
            body = goals[0] if len(goals) == 1 else ('and', goals)
            if rng.random() < 0.1:
                body = ('true',)
            clauses.append((head, body))
        prog[(name, arity)] = clauses
        sigs.append((name, arity, level))
    if lib:
        prog.update(LIB)
    return prog, sigs


def rqueries(rng, sigs, n=6):
    """-> list of (goal AST, template term, text-ready)"""
    qs = []
    for name, arity, level in sigs:
        vars_ = [X, Y][:arity]
        qs.append((('call', name, tuple(vars_)), mkc('t', *vars_)))
        for i in range(arity):
            args = list(vars_)
            args[i] = rng.choice(CONSTS)
            rest = [v for v in args if v[0] == 'v']
            qs.append((('call', name, tuple(args)), mkc('t', *rest) if rest else mkatom('yes')))
    rng.shuffle(qs)
    return qs[:n]


def lib_queries(rng):
    L = lambda *xs: mklist(list(xs))
    a, b, c = mkatom('a'), mkatom('b'), mkatom('c')
    qs = [
        (('call', 'app', (X, Y, L(a, b, c))), mkc('t', X, Y)),
        (('call', 'app', (L(a), L(b, c), X)), X),
        (('call', 'app', (X, L(c), L(a, b, c))), X),
        (('call', 'mem', (X, L(a, b, a))), X),
        (('call', 'mem', (b, L(a, b, a))), mkatom('yes')),
        (('call', 'len', (L(a, b, c), X)), X),
        (('call', 'rev', (L(a, b, c), NIL, X)), X),
        (('and', [('call', 'app', (X, Y, L(a, b))), ('call', 'len', (X, Z))]), mkc('t', X, Y, Z)),
        (('and', [('call', 'mem', (X, L(a, b, c))), ('not', ('call', 'mem', (X, L(b))))]), X),
        (('and', [('call', 'mem', (X, L(mkint(1), mkint(2), mkint(3)))), ('cmp', '>', X, mkint(1))]), X),
    ]
    return qs
