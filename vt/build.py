"""Builds the harness (and with it the engine, from /repo's current working tree)."""
import fcntl
import os
import shutil
import subprocess
import sys
import time

VERIF = os.path.dirname(os.path.dirname(os.path.abspath(__file__)))
REPO = os.environ.get('VERIF_REPO', '/repo')
HARNESS = os.path.join(VERIF, 'harness')
TARGET = os.path.join(VERIF, '.target')


class BuildError(Exception):
    pass


def _env(extra=None):
    e = dict(os.environ)
    e['CARGO_NET_OFFLINE'] = 'true'
    e['RUST_BACKTRACE'] = '0'
    e.pop('RUSTFLAGS', None)
    if extra:
        e.update(extra)
    return e


def _sync_lock():
    src = os.path.join(REPO, 'Cargo.lock')
    dst = os.path.join(HARNESS, 'Cargo.lock')
    # the harness lock file is the repo's plus the harness package itself; cargo adds
    # that entry on its own when it is missing, so only seed it when absent
    if not os.path.exists(dst):
        shutil.copy(src, dst)


def build(kind='rel', quiet=True):
    """Returns dict of binary paths. kind: rel | asan | tsan"""
    os.makedirs(TARGET, exist_ok=True)
    _sync_lock()
    lockf = open(os.path.join(TARGET, '.build-%s.lock' % kind), 'w')
    fcntl.flock(lockf, fcntl.LOCK_EX)
    try:
        tdir = os.path.join(TARGET, kind)
        t0 = time.time()
        if kind == 'rel':
            cmd = ['cargo', 'build', '--release', '--offline', '--bins']
            env = _env({'CARGO_TARGET_DIR': tdir})
            bindir = os.path.join(tdir, 'release')
        elif kind == 'asan':
            cmd = ['cargo', '+nightly', 'build', '--release', '--offline', '--bins',
                   '--target', 'x86_64-unknown-linux-gnu']
            env = _env({'CARGO_TARGET_DIR': tdir,
                        'RUSTFLAGS': '-Zsanitizer=address -Cforce-frame-pointers=yes',
                        'CARGO_PROFILE_RELEASE_OPT_LEVEL': '1'})
            bindir = os.path.join(tdir, 'x86_64-unknown-linux-gnu', 'release')
        elif kind == 'tsan':
            cmd = ['cargo', '+nightly', 'build', '--release', '--offline', '--bins',
                   '-Zbuild-std', '--target', 'x86_64-unknown-linux-gnu']
            env = _env({'CARGO_TARGET_DIR': tdir,
                        'RUSTFLAGS': '-Zsanitizer=thread',
                        'CARGO_PROFILE_RELEASE_OPT_LEVEL': '1'})
            bindir = os.path.join(tdir, 'x86_64-unknown-linux-gnu', 'release')
        else:
            raise BuildError('unknown build kind ' + kind)
        p = subprocess.run(cmd, cwd=HARNESS, env=env, stdout=subprocess.PIPE,
                           stderr=subprocess.STDOUT, text=True)
        if p.returncode != 0:
            sys.stderr.write(p.stdout[-6000:])
            raise BuildError('cargo build (%s) failed' % kind)
        dt = time.time() - t0
        if not quiet or dt > 5:
            sys.stderr.write('[build %s: %.0fs]\n' % (kind, dt))
        return {
            'plworker': os.path.join(bindir, 'plworker'),
            'vtcli': os.path.join(bindir, 'vtcli'),
            'chunkread': os.path.join(bindir, 'chunkread'),
            'atomstress': os.path.join(bindir, 'atomstress'),
            'build_s': dt,
        }
    finally:
        fcntl.flock(lockf, fcntl.LOCK_UN)
        lockf.close()
