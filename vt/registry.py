"""Per-check manifest metadata. bin/mkmanifest turns this into MANIFEST.json."""

# id -> dict(level, technique, text, note, design_ref)
CHECKS = {
 'C01': dict(
    level='exploration',
    technique='runtime monitoring: reference-model oracle (Python int) over generated expressions, two real evaluation paths',
    text='Generated integer expressions (boundary lattice around 2^31/2^55/2^63/2^64, bignums, nested trees, shifts, powers, '
         'error cases, astronomically large results) are evaluated by the real engine both through is/2 on a run-time term and '
         'as literals in compiled clause bodies; every observation is compared with exact Python integer arithmetic and the '
         'prescribed error formals. Held on the executions observed (counts per stratum in the evidence), not a proof.',
    note='Trusted: Python int arithmetic; the engine\'s own integer printer for reading results; operand evaluation order is '
         'not prescribed (any erroring operand\'s error accepted). Only the functors the statement lists.'),
 'C02': dict(
    level='exploration',
    technique='runtime monitoring: reference-model oracle (IEEE doubles via Python float/libm, Fraction, exact ints) over generated expressions',
    text='Generated float-valued and rounding expressions (double lattice incl. subnormals, +-0, near-overflow, x.5 ties, '
         'integers beyond 2^53 and beyond f64::MAX, rationals, prescribed-error cases, depth<=3 nests) are evaluated by the real '
         'engine via run-time is/2 and compiled clause bodies and compared bit-exactly (1 ulp for libm/pow, counted) with the '
         'reference; missing/wrong evaluation_errors and non-finite results are refuting events.',
    note='Trusted: Python float = IEEE-754 binary64, math.* = the same glibc libm; <=1 ulp tolerated for libm/pow; sign of a '
         'zero result not observable through the printer; int/int division may round once or after promotion; only listed functors.'),
 'C03': dict(
    level='exploration',
    technique='runtime monitoring: differential oracle between 8 real evaluation contexts of the same generated expression',
    text='Every generated expression tree (all evaluable functors x operand kinds incl. boxed-small, bignum, rational, float, '
         'ill-typed and error-raising trees) is evaluated by the real engine in 8 contexts: run-time is/2, literal in a compiled '
         'clause, call/3, inside findall/3, asserted clause body, =:= at run time, =:= compiled as a body goal and as an '
         'if-then-else condition. Type-tagged values / error formals must coincide.',
    note='Only agreement between contexts is asserted (correctness is C01/C02); error context ignored.'),
 'C04': dict(
    level='exploration',
    technique='runtime monitoring: reference ordering (int/Fraction/float) + internal-consistency invariant over the six comparison predicates',
    text='Generated number pairs (small/bignum/boxed-small integers, rationals, doubles; strata for differences beyond 53 bits, '
         'the 2^55 boundary, +-0.0, promotion overflow) are compared by the real engine with all six predicates, at run time and '
         'compiled; outcomes are checked against the reference ordering and for mutual consistency (exactly one of < =:= >).',
    note='Trusted: Python comparison semantics; ints too large for a double may compare as infinity or raise float_overflow; '
         'outcomes explained exactly by the known 1-ulp rational promotion defect are reported as KNOWN-FINDING K18c.'),
 'C16': dict(
    level='exploration',
    technique='runtime monitoring: reference values (Python int/float parsing) for constructively generated literal texts + reader/number_codes/number_chars differential + print/read round trip',
    text='Literal spellings generated together with their values (decimal with _ groups, 0b/0o/0x up to 200 digits, 0\'c with all '
         'escapes, floats incl. 18-40 digit mantissas, exact halfway cases, subnormal/overflow boundaries, negatives, malformed '
         'spellings) are read by the term reader, read_term_from_chars, number_chars and number_codes; values compared bit-exactly; '
         'every number kind is also printed (number_codes, number_chars, writeq) and read back.',
    note='Trusted: Python float() is correctly rounded. Which syntax_error is raised is not compared; sign of zero not compared.'),
 'C13': dict(
    level='exploration',
    technique='runtime monitoring: reference standard order (term model) + antisymmetry/transitivity/==-consistency invariants on observed comparisons',
    text='Generated pairs/triples of terms (all number kinds incl. boxed-small and rationals produced at run time, atoms of every '
         'storage class, strings vs equal/near-equal explicit lists around cell boundaries, partial lists, compounds differing in '
         'arity or name, shared variables) are compared by the real engine with compare/3 in both directions and the six @/== '
         'predicates; results must equal the reference order, agree with each other, and be transitive on triples.',
    note='Trusted: the order exactly as the statement words it; order of distinct variables and of 0.0 vs -0.0 not predicted.'),
 'C06': dict(
    level='exploration',
    technique='runtime monitoring: reference model of clause selection (Python unification over all clauses in order) + differential against a de-indexed twin predicate',
    text='Generated predicates (1-10 clauses, arity 1-3, keys of every type incl. strings, partial lists, same-name structures, '
         'variables that split index spans or move the indexed argument) are loaded static, dynamic-consulted and dynamic built by '
         'assertz/asserta/retract histories; each is called with literal, near-miss, unbound and run-time computed arguments; the '
         'ordered list of matching clause numbers must equal the reference and the twin. A call that does not return in 10 s '
         '(normal < 1 ms) on these finite fact tables is a refuting event.',
    note='Trusted: Python unification of finite terms. Rational keys are not generated. Known findings K2 (boxed integer call '
         'arguments), K23 (asserta histories), K25 (hang after retract of a variable-key clause) are reported as KNOWN-FINDING.'),
 'C05': dict(
    level='exploration',
    technique='runtime monitoring: differential oracle over a producer x consumer matrix for each integer value',
    text='For boundary integers (0, +-1, 255, 2^31+-1, 2^55-1, 2^55, -2^55, -2^55-1, 2^63, +-2^64; random ones in thorough) every '
         'producer (literal, text conversion, arithmetic through 2^60/2^64/10^30, multiply/divide by 2^70, length, atom_length, succ, '
         'findall copy, database round trip, arg, boxed-then-copied/asserted) is combined with every integer-consuming context '
         '(30 consumers incl. unification, ordering, sort, functor/arg, length, char_code, number_codes, between, format ~d, '
         'assert/retract, first-argument clause selection); each cell must behave exactly as with the literal.',
    note='Only agreement with the literal is asserted; consumers are used inside their documented domains (a cell whose literal '
         'gives no value makes the run inconclusive). K2b (clause selection with boxed integers) is a KNOWN-FINDING.'),
 'C10': dict(
    level='exploration',
    technique='runtime monitoring: reference rational-tree unification (Python) next to the engine + post-state invariants (X == Y, no outside binding, bindings undone on failure)',
    text='Generated term pairs (shared variable pools, all number kinds incl. boxed-small/bignum/rational, strings vs char lists '
         'vs partial lists, mutated copies, variants, would-be-cyclic and aliased pairs) are unified by the real engine; the '
         'outcome and the instantiated f(X,Y,Vars) must be a variant of the reference mgu applied to it, X == Y must hold '
         'afterwards, a failed unification must leave f(X,Y,Vars) untouched; unify_with_occurs_check/2 and = under '
         'occurs_check=true/error are compared with "a finite unifier exists".',
    note='Trusted: the Python unifier. Attributed variables excluded (C26). With occurs_check=error a non-unifiable pair may fail '
         'or raise (a cyclic binding can be met before the mismatch).'),
 'C14': dict(
    level='exploration',
    technique='runtime monitoring: reference list/set/map models (Python, ordered by the reference standard order) next to the engine; assoc operation histories against a dict',
    text='Generated lists of mixed variable-free terms (duplicates, equal numbers in different representations, strings, char '
         'prefixes stored as partial strings, boxed integers) are given to sort/2, keysort/2, the exported library(lists) '
         'predicates (all modes of append/3, nth0/nth1, select/3, ...), ordsets, pairs, and random put/get/del/min/max histories of '
         'library(assoc); every result (or solution list) must equal the model\'s.',
    note='Trusted: the Python models and the C13 reference order. Only exported predicates; K4 (sort/2 rejecting lists with a '
         'one-char-atom prefix) is a KNOWN-FINDING.'),
 'C23': dict(
    level='exploration',
    technique='runtime monitoring: reference term model (Python) next to the engine + "inspection leaves the term unchanged" invariant',
    text='Generated terms with heavy variable sharing, strings inside structures, boxed/bignum/rational leaves are given to '
         'functor/3 (decompose/construct/ISO errors), arg/3 (bound index, out of range, ISO errors), =../2 both ways, copy_term/2 '
         '(variant, disjoint variables, original unchanged), term_variables/2 (order, no duplicates), ground/1 and subsumes_term/2 '
         '(vs one-way matching; no bindings left); every result is compared with the model.',
    note='Trusted: the Python term model. Attributed variables are not generated (C26). arg/3 with an unbound index raises '
         'instantiation_error in this system (ISO 8.5.2.3 a), so no enumeration mode is asserted.'),
 'C20': dict(
    level='exploration',
    technique='runtime monitoring: differential oracle between storage layouts of the same char list, plus obvious reference values',
    text='Texts with lengths around the 8-byte cell and sentinel boundaries (ASCII, 2-4 byte characters straddling cells, NUL '
         'characters) are built in 8 storage layouts (string literal, consed at run time, atom_chars, partial_string/3, appended '
         'segments, findall copy, database round trip, variables bound later) and ~30 operations (=, ==, compare/3, @<, length, '
         'append modes, nth0, reverse, arg/functor/=.., copy_term, sort, atom conversions, ground, term_variables, writeq, '
         'unification against partial lists at split points) are applied to each; every layout must behave like the literal and '
         'give the known value. A crash of the engine while running an operation is a refuting event.',
    note='double_quotes=chars only. K27 (unification of a cons+string list with a long partial string) and K28 (SIGSEGV in '
         'compare/3 on the same layout) are KNOWN-FINDINGs.'),
 'C21': dict(
    level='exploration',
    technique='runtime monitoring: differential oracle between atom creation paths + reference code-point order',
    text='Texts around the inline-atom limit (1-9 bytes, multi-byte characters, NUL), texts equal or close to predefined atoms and '
         'long texts are turned into atoms by 11 creation paths (atom_codes, atom_chars, atom_concat, sub_atom, char_code, '
         'read_term, =../functor, write+read, consulted clause literal, copy, findall); each must be == and compare = to the '
         'literal, select the literal\'s clause in a consulted fact table, and read back the same codes and length; different '
         'texts must be \\== and ordered by code points.',
    note='Identity observed through ==, compare/3, clause selection and read-back (not the raw atom index).'),
 'C22': dict(
    level='exploration',
    technique='runtime monitoring: reference model on Python str (code points) incl. ISO enumeration order and error cases; char_type against ISO 6.5 tables and mode consistency',
    text='Generated atoms (ASCII, 2-4 byte characters, combining marks) are given to atom_length/2, atom_chars/2, atom_codes/2, '
         'char_code/2, atom_concat/3 and sub_atom/5 in every instantiation mode (enumerations compared in ISO order), with '
         'ill-typed/unbound arguments for the ISO errors, and char_type/2 is compared with the ISO character tables for ASCII, '
         'Python case mapping for stable cased letters and its own enumerating mode.',
    note='Trusted: Python str semantics; non-ASCII classification only checked for mode consistency. Atoms containing the '
         'single-quote character are left to C55 (results are read through the printer).'),
 'C15': dict(
    level='exploration',
    technique='runtime monitoring: metamorphic write/read round trip executed by the engine itself (variant check in-engine and on structural dumps)',
    text='Generated terms over a vocabulary of tricky atoms (all predefined operator names, solo and symbol-char atoms, empty, '
         'quoted/escaped, non-ASCII), used as atoms, functors (prefix/infix operator syntax at every priority), operands, with '
         'negative numbers under - and ^, curly terms, lists, partial lists, strings with escapes, variables, integers of every '
         'size and floats, are written with write_term quoted(true), with ignore_ops(true) and with writeq to a real stream, read '
         'back under the same (default) operator table, and must be variants of the original.',
    note='Input terms are given in functional, fully quoted notation (trusted reader path). Not covered: random operator tables '
         '(implemented, switched off pending triage), rationals (no literal syntax), print/1 (absent in this build). KNOWN-FINDINGs '
         'K29, K31, K33.'),
 'C55': dict(
    level='exploration',
    technique='runtime monitoring: reference classifier of ISO 6.4 atom tokens + independent decoder of quoted text; exhaustive enumeration of short atoms',
    text='Every atom of length 1-3 over a 22-character alphabet covering all lexical classes (11 154 atoms, enumerated '
         'exhaustively), special atoms and random longer ones are written with writeq (quoted(true)) and write; the quoted/unquoted '
         'decision must match the ISO token classes, quoted text must decode back to the atom, write must emit the raw characters; '
         'write_canonical and ignore_ops(true) output of compound terms is compared with functional notation.',
    note='ASCII atoms only are classified (non-ASCII left to the C15 round trip). Either quote-escaping style is accepted. K29b is a KNOWN-FINDING.'),
 'C45': dict(
    level='exploration',
    technique='runtime monitoring: reference model derived from the generator\'s own placement of variable tokens in clause text',
    text='Generated clause texts (named, _-prefixed and anonymous variables in random repetition patterns, under operators, in '
         'lists/curly terms, with decoys inside quoted atoms, strings, 0\'c codes and comments) are read with read_term_from_chars/3 '
         'and read_term/3 on a file stream with every subset/order of variables/1, variable_names/1, singletons/1; the lists must '
         'contain exactly the placed variables (first-occurrence order; singletons as a set), bound to the right positions of the term.',
    note='The generator writes bracketed operator terms so the text order of variables is their left-to-right order in the term.'),
 'C17': dict(
    level='exploration',
    technique='runtime monitoring: process-level observation (panic/crash/no progress of the read loop) + resynchronisation model with sentinel clauses',
    text='Files  ok(1). ok(2). <damaged clause> ok(3). ok(4).  with one mutation of a valid clause (delete/insert/replace with '
         'quotes, brackets, 0\', comment openers, NUL, control and multi-byte characters, truncation, unterminated quoted items, '
         'invalid escapes, token soup, 10^4-character tokens, 300-deep brackets) are read clause by clause with read_term/3 until '
         'end_of_file; a panic, a crash, a read loop that does not end within 80 reads, damaged prefix clauses, a non-syntax error, '
         'or failing to read the last sentinel clause again are refuting events.',
    note='Mutations that open a quote/comment may swallow following text: only termination, prefix and no-crash are asserted for '
         'them. K35/K35b (reader makes no progress after certain lexer errors) are KNOWN-FINDINGs.'),
 'C50': dict(
    level='exploration',
    technique='runtime monitoring: differential oracle between the in-memory and the stream paths (same text / same term / same options)',
    text='Terms from the printed-term corpus are written with random option lists (quoted, ignore_ops, numbervars, max_depth, '
         'variable_names) both by write_term_to_chars/3 and by write_term/3 on a file stream and the texts must be identical; '
         'valid, damaged, multi-clause and empty texts are read by read_term_from_chars/3 and by read_term/3 on a file with the '
         'same options (variables, variable_names, singletons) and must give variant terms or errors of the same class.',
    note='Only agreement is asserted. All variables are named through variable_names/1 because write_term_to_chars/3 deliberately '
         'invents names for unnamed variables (documented design difference).'),
 'C49': dict(
    level='exploration',
    technique='runtime monitoring: reference model (mathematical relations on Python ints) incl. enumeration order, finite prefixes and documented errors',
    text='between/3, length/2, numlist/2,3 and succ/2 are called in every instantiation mode with arguments from small integers, '
         'values around 2^55 and 2^64, integers boxed through bignum arithmetic, floats, atoms and unbound variables; complete '
         'enumerations (or the first 4 solutions of infinite ones), membership tests and error formals are compared with the model.',
    note='Infinite enumerations compared on a finite prefix; succ/2 errors compared on "some error is raised" where the library '
         'delegates to can_be/2.'),
 'C52': dict(
    level='exploration',
    technique='runtime monitoring: range/type invariants on every sample, endpoint reachability, reproducibility differential (same seed on the same and on a fresh machine)',
    text='Batches of samples of random/1 and of random_integer/3 over small, negative, tiny (width <= 3), 2^55/2^63/2^64-boundary '
         'and bignum ranges (also with boxed bounds) are checked for type and range, tiny ranges must return both endpoints, empty '
         'ranges must fail, ill-typed bounds must raise the documented errors, and after set_random(seed(S)) (seeds of every size '
         'and sign) a mixed sequence of 30 calls must repeat after re-seeding and on a fresh machine.',
    note='No distributional claim beyond endpoint reachability (false-alarm probability < 2^-150 per tiny range).'),
 'C37': dict(
    level='exploration',
    technique='runtime monitoring: reference algorithms (Python hashlib/hmac/base64/codecs) next to the engine + encode/decode and encrypt/decrypt round trips + tamper rejection',
    text='Inputs of length 0-300 (every length around the hash block sizes), as octet strings and as Unicode text, are hashed '
         'with all 11 algorithms of crypto_data_hash/3 (HMAC for sha256/384/512 with keys of 0-200 bytes) and compared byte for '
         'byte with hashlib/hmac; hex_bytes/2, chars_base64/3 (padding x charset) and chars_utf8bytes/2 are compared in both '
         'directions; chacha20-poly1305 encrypt->decrypt must return the plaintext and a flipped tag/ciphertext/aad byte must be rejected.',
    note='AEAD ciphertext bytes are not compared (no reference in the stdlib). Password hashing, signatures and curves are outside the statement.'),
 'C41': dict(
    level='exploration',
    technique='runtime monitoring: reference parser (Python json) mapped to the documented term form + generate/parse round trip + rejection of invalid documents',
    text='Random JSON values (nested objects with duplicate keys, arrays, strings with every escape form and raw multi-byte '
         'characters, integers of any size, -0, fractions, signed exponents, literals) rendered with random whitespace are parsed '
         'with phrase(json_chars(T), Text) and compared with json.loads mapped to pairs/list/string/number/boolean/null; terms are '
         'generated to text which must load to the same value and parse back to the same term; invalid documents must have no parse.',
    note='First solution only; non-integer numbers within 2 ulp (the library computes them arithmetically); surrogate-pair '
         'escapes are not generated.'),
 'C51': dict(
    level='exploration',
    technique='runtime monitoring: reference model (documents generated together with their rows, RFC 4180 rendering, documented field typing) + write/parse round trip through a real file',
    text='Generated tables (plain words, empty fields, integers/decimals, fields needing quotes: separators, quotes, CR/LF/CRLF, '
         'spaces, Unicode) are rendered per RFC 4180 with separators , ; | tab and LF/CRLF line ends and parsed with parse_csv//2 '
         '(with_header, token_separator), the frame must equal the generated rows; frames are written with write_csv/3 '
         '(line_separator, token_separator, with_header) to a file whose text must parse back to the same frame.',
    note='Numeric-looking fields restricted to plain integers/decimals (typing follows number_chars/2); rows have >= 2 columns.'),
 'C53': dict(
    level='exploration',
    technique='runtime monitoring: reference model (Python sets/dicts) of the graph-theoretic definitions; exhaustive enumeration of all digraphs with <= 3 vertices',
    text='All 531 digraphs with at most 3 vertices (self loops included) and random digraphs with 2-8 vertices over integer and '
         'mixed-type vertex names go through vertices_edges_to_ugraph, vertices, edges, add/del_vertices, add/del_edges, neighbours, '
         'transpose_ugraph, compose, ugraph_union, transitive_closure, reachable, complement and chains of operations; results must '
         'equal the model\'s S-representation; top_sort/2 must fail exactly on cyclic graphs and otherwise return a valid order.',
    note='Definitions from the library documentation (closure: paths of length >= 1; reachable includes the start; complement '
         'without self loops). Multi-character atom names avoid the sort/2 finding K4.'),
 'C44': dict(
    level='exploration',
    technique='runtime monitoring: history monitor over set_prolog_flag/2 calls with a full flag-table snapshot (three read modes) after every call, plus behavioural effect probes',
    text='Random histories of set_prolog_flag/2 calls (valid, invalid, read-only, unknown-flag, uninstantiated) run on fresh machines; '
         'after every call the whole flag table is read by enumeration, with the flag bound and with flag and value bound, and the three '
         'must agree; a successful set must be visible, a failing or raising set must leave the table unchanged, read-only flags never '
         'change, error formals follow ISO 8.17.1.3; after each successful change of double_quotes, occurs_check or unknown the flag\'s '
         'effect on reading "ab", on X = f(X) and on calling an undefined predicate is observed.',
    note='Goal text reaches the machine as a double-quoted literal, so pl/vt.pl normalises it under every double_quotes mode.'),
 'C43': dict(
    level='exploration',
    technique='runtime monitoring: history monitor with an ISO 8.14.3 reference model of the operator table, seeded from the machine\'s own pristine current_op/3 dump; reader probes as second observation point',
    text='Histories of 1-25 op/3 calls (valid, removing, redefining predefined operators, name lists, protected names, bar, bad '
         'priorities/specifiers/names, unbound arguments) run on fresh machines; after every call the current_op/3 enumeration must '
         'equal the model table as a set without duplicates, a rejected call must raise one of the errors that apply and leave the '
         'table unchanged, name-/specifier-/priority-bound current_op/3 reads must equal the filtered enumeration, bad current_op/3 '
         'arguments must raise; after every 4th call and at the end the reader is probed with infix, prefix and postfix uses of every '
         'name and must parse exactly what the table allows.',
    note='All goal text is operator-free (helpers loaded while the table is pristine) because histories remove predefined operators. '
         'op(P,T,[]) is accepted either as the empty list of names or as the protected name [].'),
 'C36': dict(
    level='exploration',
    technique='runtime monitoring: reference model of the documented directive table; format strings, arguments and expected text are generated together; value-based oracle for ~Nf',
    text='Format strings with 1-6 directives (every documented directive, ~* numeric arguments, literal ASCII/Unicode text, column '
         'segments with 1-3 fill points) and arguments of the matching types (integers of every size and sign, floats from 5e-324 to '
         '1.5e300, atoms, strings, ground terms) are run through phrase(format_//2) and, 1 in 8, through format/3 on a file stream; the '
         'produced text must equal the model text (~Nf: N digits and numerically within half a unit plus double-precision slack of the '
         'exact binary value; uneven fill remainders may go to any fill point). 44 error cases per mode: undocumented directives, '
         'argument-count mismatches and ill-typed arguments must raise, and format/3 must not have written anything.',
    note='~w/~q leaves use the machine\'s own write_term_to_chars text of the same argument (the printer is checked by C15/C55). '
         'Column stops before the current column, ~a with numbers, ~f with integers and ~0n are undocumented and not generated.'),
 'C19': dict(
    level='exploration',
    technique='runtime monitoring: history monitor with a shadow stream model (bytes, cursor, newlines consumed, end state, eof_action, type, reposition) stepped in lock-step with the real stream',
    text='Payloads are written to a file by random put_char/put_code/put_byte/write/nl/format sequences (write and append mode, text '
         'and binary) and compared byte for byte with what is on disk; the file is re-opened with random type/eof_action/reposition '
         'options and driven by 8-40 operations (get_/peek_ char, code and byte, get_n_chars, at_end_of_stream, read_term, saving and '
         'restoring positions, operations of the wrong stream type); after every operation the returned item, the byte position, the '
         'line count and end_of_stream are compared with the shadow stream, including reads at and past the end under every eof_action.',
    note='eof_action(reset) accepts both readings (end-of-file again, or restart at the beginning as implemented); whether read_term/3 '
         'consumes the layout character after the end token is left open; only file streams are driven (the library offers no '
         'in-memory stream constructor at the Prolog level).'),
 'C48': dict(
    level='exploration',
    technique='runtime monitoring: history monitor with a shadow directory tree; after every call the real tree (os.walk: names, kinds, contents) is compared with the shadow; external changes by the harness',
    text="Histories of 10-40 library(files) calls (queries, creation, deletion, rename, copy, canonicalisation, path_segments in both directions, files written through open/3) run in a scratch directory over ASCII and Unicode names, interleaved with files and directories created or removed by the harness behind the machine's back; every outcome is compared with the shadow tree, documented existence errors are required for missing objects, ill-typed or unbound paths must raise, and after every call the real tree must equal the shadow (so a refused operation must leave the tree unchanged).",
    note='Operations the operating system refuses may fail or raise (the documentation does not say which). Symbolic links and working_directory/2 are not driven.'),
 'C47': dict(
    level='exploration',
    technique='runtime monitoring: differential (phrase_from_file/2,3 on a file vs phrase/2 on the full character list) with all solutions of both sides compared inside the machine',
    text='Files of 0 to 12289 characters (ASCII, newlines, 2/3/4-byte characters, and non-UTF-8 bytes read with type(binary)), sized around the 4096-character steps of the lazy list and with needles placed before, on and after the step boundaries, are parsed with 14 grammar bodies (whole text, counting with cuts, all splits at a newline, substring search with backtracking, first/last character, if-then-else, negation, failure after a full scan, early failure, split at a fixed length, pushback lookahead over a step boundary, nested phrase on a prefix); the list of all solutions of phrase_from_file/2,3 must be identical (==) to the list of all solutions of phrase/2 on the same text.',
    note='NUL bytes and C1 control characters are not used in type(binary) contents (the harness could not pass such literals through the query reader).'),
 'C40': dict(
    level='exploration',
    technique='runtime monitoring: metamorphic monitor over limits (reproducibility, monotonicity, sharp threshold found by binary search) plus reference answers, nesting and leftover-state probes',
    text="For 10 goal families with known answers (deterministic recursion, naive reverse, member/between enumerations, failing goals, cuts, if-then-else, arithmetic) the outcome list of call_with_inference_limit/3 is observed at 12-22 limits per goal: the threshold below which the limit is exceeded must be sharp, every outcome must repeat on the same machine and on a second machine, answers at a smaller limit must be a prefix of those at a larger one and equal the unrestricted answers from the threshold on; a nested limit must not hide the inner goal's inferences from the outer count, work after an exceeded inner limit must run, an exception inside must propagate, an infinite loop must be stopped, and a reference goal's threshold is re-measured after every family (no leftover state).",
    note='true vs ! in the result argument is not asserted; a nested call may add a constant overhead of at most 200 inferences.'),
 'C25': dict(
    level='exploration',
    technique='runtime monitoring: reference model (Python) of ISO 8.10 over random ground fact tables whose clause order is known; all groups of bagof/setof are enumerated by backtracking',
    text='Random fact tables p/3 (0-10 ground rows incl. duplicates) are loaded and queried with generator goals with 0-2 given arguments; findall/3, findall/4 with a tail, templates with an extra unbound variable (fresh copies), bagof/3 and setof/3 with 0-2 free variables and ^ on any subset of them (all groups, in standard order of the witness), empty solution sets, forall/2 against its double negation, countall/2, call_nth/2 with the index unbound, given, 0 and out of range, findall nested in setof-driven enumeration, and an exception thrown by the n-th solution followed by an ordinary findall must all equal the model.',
    note='Facts are ground (non-ground witnesses and attributed variables in templates are not generated); bignum first arguments are left to C05/C06 (known finding K2).'),
 'C07': dict(
    level='exploration',
    technique='runtime monitoring: executable reference model (vt/miniprolog.py, an SLD interpreter with ISO cut, if-then-else, negation and disjunction semantics) compared with the compiled program on full answer sequences',
    text="Random layered programs (ground fact tables, rules of 1-4 clauses whose bodies mix calls with variable/constant/structure arguments, ==, \\\\==, @<, @>=, =, disjunction, if-then-else, negation and cuts; heads with repeated variables, constants and structures) plus the recursive list predicates app/3, mem/2, len/2, rev/3 are consulted as static code; every predicate is queried with all arguments free and with each argument given, and 10 list-library queries (incl. conjunctions with negation and arithmetic comparison) are run; the full answer sequence (order, multiplicity, bindings up to renaming, fresh variables per answer) must equal the reference interpreter's.",
    note='Cases the model cannot decide are dropped, never judged: comparison of distinct unbound variables with @</@>=, more than 300 answers, more than 200000 interpreter steps. Two clause shapes that hit compiler defects (known findings K41, K42) are not generated at random and are probed by one fixed clause each.'),
 'C08': dict(
    level='exploration',
    technique='runtime monitoring: differential between loading modes (static, discontiguous, dynamic+assertz, clause/2 meta-interpreter) and calling modes (direct, call/1, call/N, partial goals, wrapper clauses) of one random program',
    text='Each random program (C07 generator, 40% cut-free, plus the list library) is installed under different predicate-name prefixes as static code, as interleaved discontiguous clauses, as a dynamic predicate filled clause by clause with assertz/1, and is interpreted by a clause/2 meta-interpreter (cut-free programs); every query (all-free and one-argument-given calls of every predicate, list-library goals) is run directly, through call/1 of the goal term, call/N with name and arguments, call/N with a partial goal, and four kinds of wrapper clause; all answer sequences must equal those of the static direct call.',
    note='Queries whose evaluation orders distinct unbound variables are skipped (implementation-defined order); clause shapes of the compiler findings K41-K43 are not generated (they are probed by C07). The meta-interpreter exposed K43 (the compiled code was the wrong side).'),
 'C11': dict(
    level='exploration',
    technique='runtime monitoring: invariant monitor: copy_term/3 snapshots of a prepared state (term copy plus residual goals) and of the global variables before and after a failing / backtracked / abandoned context',
    text='A state consisting of an older unbound variable, a partially bound structure, a bound constant, an attributed variable (none, dif/2, freeze/2 or both) and two global variables is snapshotted, a random sequence of 1-6 binding, aliasing, constraint-posting and global-variable actions is run inside one of 9 contexts that fail or are abandoned (negation, double negation, failing if-then-else condition, findall/3, catch/3 recovery after a throw, exhausted disjunction, forall/2, once/1 followed by failure, two contexts nested), and the state is snapshotted again; the snapshots must be variants including residual goals, the bb_b_put/2 variable must be back at its old value and the bb_put/2 variable must hold the last value written. Every test body runs both as a compiled clause (permanent variables) and as a called term (heap variables).',
    note='Action sequences are generated so that no action can fail, which makes the expected value of the non-backtrackable global variable known.'),
 'C12': dict(
    level='exploration',
    technique='runtime monitoring: event-trace monitor (assertz log that survives backtracking and exceptions) checked against a Python model of ISO 7.8.9/7.8.10 for catch/throw, plus counting invariants for setup_call_cleanup/3 and shape checks for builtin errors',
    text='(a) Random goal trees (depth <= 4) over logging steps, two-way logged alternatives, bindings, throw/1 with balls of eight shapes (atoms, integers, structures with bound/unbound/shared variables, error/2 terms, lists) and catch/3 with matching, more general, variable and non-unifying catchers, mixed with conjunction, disjunction, once/1, negation, if-then-else and findall/3, are run to exhaustion; the event trace, the number of solutions or the uncaught ball, the ball copy seen by the recovery goal and the bindings visible there must equal the model. (b) 63 combinations of setup_call_cleanup/3 goals (deterministic exit, failure, exception, alternatives, alternatives then failure/exception) and contexts (exhaustion, once/1, failing conjunction, catch/3, if-then-else, negation, nesting, later throw, later cut): every activation must log its cleanup exactly once and after its setup. (c) 61 builtin misuse goals: whatever is raised must be error(Formal, Context) with an ISO formal.',
    note='The position of a cleanup relative to unrelated events is not asserted (only for the deterministic-exit case run alone). Logged terms are compared up to renaming per log entry.'),
 'C09': dict(
    level='exploration',
    technique='runtime monitoring: history monitor with a Python model of the clause store; iterations are consumed answer by answer with scheduled database actions in between',
    text='Stores of 2-7 clauses d(Key, Id) (constant, structure and unbound keys) are built with assertz/1; an outer iteration (call with the key unbound / given / absent, clause/2, or retract/1) is consumed answer by answer and after chosen answers a scheduled action runs: assertz, asserta, retract of the first match, retract of a clause by id (visited or not yet visited), retract by backtracking, retractall, or an inner observation by call or clause/2; the answers of the outer iteration must be the clauses of its call time, inner observations and the final clause/2 listing must equal the model store.',
    note='On this tree the property holds only for call iterations combined with assertz/1 and observations: retract of unvisited clauses (K45), clause/2 iterations under any modification (K46, K50), asserta/1 (K47), assertz mixed with retract (K48, a panic) and hangs after retract (K49) are listed known findings keyed on iteration kind, error kind and whether asserta/retract were used; everything outside those signatures is still reported.'),
 'C34': dict(
    level='exploration',
    technique='runtime monitoring: process-level observation of worker processes under an address-space limit (how each query ended: answer, Prolog error, time-out, machine panic, death of the process), plus cheap result checks',
    text='Nine term shapes (long list, right- and left-nested structures, deep unary nesting, deep list nesting, long string, arity-255 structure with deep arguments, conjunction chain, operator chain) of 10^3 and 10^5 nodes (thorough: up to 3*10^6) are built inside the machine and put through 16 operations each (copy, comparison and unification with a copy, occurs-check unification, ground, term_variables, assert and retrieve, findall copy, writing, write-then-read, throw/catch, global variables, =.., subsumes_term, file round trip), 8 list operations (length, reverse, sort, msort, append, nth1, sum, keysort) and 5 long-atom / huge-integer operations; every query runs alone in a worker with an 8 GiB address-space limit; a panic or the death of the worker is a violation, results are compared where they are cheap to know.',
    note='Time-outs and Prolog errors are accepted outcomes; out-of-memory kills of a worker are reported as inconclusive, not as violations. Quick tier: 471 operations, sizes 10^3 and 10^5.'),
 'C30': dict(
    level='exploration',
    technique='runtime monitoring with fault injection: the verif hook fails the k-th heap growth attempt (transiently, or persistently in 1 case of 8) while the residual free space before the query moves the failure over the allocation sites; process outcome, caught error and a probe battery are observed',
    text='13 workloads (long list, structure-building recursion, copy_term, findall of 6*10^4 solutions, assertz of a big term, atom/string conversion and append, number_codes of a 10^5-digit number, bignum multiplication, reading a big term from chars, sort, bagof, format_//2, error construction with a big culprit) are run as the first query of a fresh machine with r free cells left (r swept over 10-30 values) and the k-th growth attempt failed (k = 1..8); the goal must end in a caught error(resource_error(memory), _) (a transient failure may also be survived by a retry; a failure that hits the harness code around the goal must surface as the same error), the process must not panic or die, and 8 probe goals run afterwards with the hook disarmed must give their reference answers; every 9th case injects into the 2nd-4th query of a machine.',
    note='Known findings: K7 (failure while run_query sets the query up: panic or garbage ball), K7b (later queries: garbage ball), K53 (persistent exhaustion: documented double-fault panic). Only heap growth is failed; Vec/arena allocation failure aborts by Rust semantics and is outside the property.'),
 'C31': dict(
    level='exploration',
    technique='runtime monitoring with fault injection: the verif hook raises the interrupt flag at the n-th dispatched instruction; a three-goal sequence plus a probe battery is observed together with the hook counters (raised-at, delivered-at, number of deliveries)',
    text='For 12 workloads (naive reverse, findall, assert/retract loop, setup_call_cleanup with a pending cleanup, catch/throw loop, dif/freeze wake-up chains in the attributed-variable dispatch loop, call_with_inference_limit, bagof/setof, string building, deep recursion, an exception in flight, read+call) the instruction count N is measured and the interrupt is raised at n in 1..300 (step 7), 400 random points in [1, N], the last 300 instructions (step 11) and three points beyond N; the workload and two probe goals then run under catch/3: at most one goal may observe error($interrupt_thrown, _), every other goal must give its reference answer, the hook must count at most one delivery, matching the observed balls, within 512 instructions of raising, a pending cleanup must have run exactly once, the process must not panic, and six battery goals must give their reference answers afterwards.',
    note='Known findings: K54 (an interrupt taken by the machine at certain points is lost: no goal sees the ball) and K55 (an interrupt at certain points makes the dispatch loop panic with an out-of-range program counter). One machine per worker process (the flag is process-global).'),
 'C26': dict(
    level='exploration',
    technique='runtime monitoring: reference model (Python unification decides success, fired goals and bindings) plus metamorphic comparison of the residual constraints over many merge orders of the same unifications and constraints; fired goals are logged by assertz so that double runs are visible',
    text='Cases of 1-4 unifications over X Y Z W and small terms and 1-4 constraints (dif/2 between variables, terms and structures sharing variables; freeze/2; when/2 with nonvar, ground, conjunctive and disjunctive conditions; every suspended goal logs its id) are run in up to 8 merge orders (constraints first, last, random interleavings); for every order success/failure, the final bindings and the multiset of logged ids must equal the model (dif fails exactly when its arguments become identical, a suspended goal runs exactly once iff its condition holds at the end), and the residual constraints, identified by kind and carried ids, must be the same for all orders.',
    note='Known findings: K56 (with dif/2 present, freeze/when goals run with their variable unbound or several times), K57 (when/2 over several variables runs its goal twice). library(when) has no ?=/2 condition; unifications that would build cyclic terms are re-drawn (C24).'),
 'C54': dict(
    level='exploration',
    technique='runtime monitoring: differential between library(reif) and the explicit disjunction over =/2 and dif/2 generated by the check, with all remaining variables labelled so that both answer lists are ground',
    text='Random conditions of depth <= 3 over X = Y, dif(X, Y), conjunction and disjunction (operands: three variables, constants, f(Var)), with any subset of the variables bound beforehand, are run through if_/3 (also nested) next to their defining disjunction; tfilter/3, tpartition/4, memberd_t/3 and tmember/2 with an =/3 test on lists of length 0-4 over variables and constants are run next to explicit recursive definitions; after labelling X, Y, Z over a five-element domain both sides must give the same answers with the same multiplicity.',
    note='Only (=)/3-based tests are passed to the list predicates; residual constraints are never compared directly because labelling decides them.'),
 'C24': dict(
    level='exploration',
    technique='runtime monitoring: reference model on term graphs (bisimulation for identity, union-find for unifiability, reachability for cyclicity, groundness and variables); the graphs are built inside the machine by solving random equation systems with the occurs check off',
    text='Random systems of 1-6 equations N_i = shape(args) (binary and unary structures, list cells, strings with open tails, pairs; arguments are other nodes incl. back edges and self loops, constants and shared variables) are solved by unification; for every node acyclic_term/1, ground/1, the number of term_variables/2 and copy_term/2 followed by unification with the original, and for random node pairs ==/2, compare/3 in both directions and =/2 are compared with the model; acyclic_term/1 is followed by unifying all nodes with a copy taken before; every call must return within 20 s.',
    note='Known finding K15: acyclic_term/1 misjudges shared compact strings and leaves character lists changed (keyed on graphs that contain strings or character lists). compare/3 is only required to answer = exactly for identical terms and to be antisymmetric.'),
 'C35': dict(
    level='exploration',
    technique='runtime monitoring: metamorphic comparison of answers across repeated loads plus an invariant on the machine footprint read through the verif hook after every load',
    text='Random programs (C07 generator, with and without cuts, plus a dynamic predicate with facts, a discontiguous predicate interleaved with other clauses, a multifile predicate and an operator declaration used by the text itself) are loaded 3-5 times on a fresh machine through load_module_string or consult_module_string; after every load 8 queries are run and the footprint is read; answers must equal those after the first load, and heap cells, stack top, trail, choice-point and environment registers, loader contexts and inactive load states must equal the values after the first load (atom table entries: the values after the second load).',
    note='Known finding K58: one inactive load state is left behind per load. The code area is append-only by design and is not part of the property.'),
 'C28': dict(
    level='exploration',
    technique='runtime monitoring: history monitor over Machine::run_query (every LeafAnswer is serialised by the worker) with a reference model of the expected answer stream; prefixes of the streams are consumed before the iterator is dropped',
    text='Histories of 3-10 queries run on one fresh machine each: fact-table calls with 0-2 arguments given, member/2 enumerations, unifications with atoms, integers incl. 2^70, floats, strings, lists and structures with unbound variables, failing goals, goals that throw at the first / k-th / last solution, a conjunction with a cut, goals without variables; per query the whole stream or a prefix of 0-3 answers is taken; the stream must consist of the model answers in order (bindings up to renaming), then an optional false marker, then the end; an exception must be reported once and end the stream; what a query answers must not depend on the history.',
    note='Known findings: K59 (after a query that threw or was consumed partially the machine is not clean: the old exception is reported again, later streams never end, panic in machine/mod.rs:1213, process death; keyed on histories that contain such a query, so histories without one are checked strictly) and K16 (an answer binding a partial list panics in lib_machine/mod.rs:403).'),
 'C39': dict(
    level='exploration',
    technique='runtime monitoring: reference recognizer: the check translates each generated grammar itself (DCG draft standard) into plain clauses and runs them on the reference interpreter; phrase/2,3 answers of the machine are compared with it',
    text='Random three-layer grammars (terminal lists and strings, non-terminals with variable or constant arguments, {}//1 unifications, cuts, alternatives with | and ;, if-then-else, call//N, and a pushback rule) are loaded as DCG rules; for 14 sampled inputs over a b c of length 0-5 per grammar the list of all answers of phrase/3 (argument binding and remainder, in order) and of phrase/2 must equal the answers of the independently translated program on vt/miniprolog.py.',
    note='\\\\+ in DCG bodies is rejected by library(dcgs) with a representation error and is therefore not generated (the property does not list it). Cases the reference cannot decide within its step budget are dropped.'),
 'C42': dict(
    level='exploration',
    technique='runtime monitoring: reference model of the module table; every definition answers with a tag naming its module, so each probe call reveals which definition ran',
    text='Random layouts of 2-4 module files over the names p q r s (random definitions and export lists, imports from earlier modules through use_module/1 or use_module/2 with a selected list, a separate module providing the meta-predicate mcall/1) are loaded on a fresh machine; inside every module every name is called unqualified, through call/1 of a constructed goal, as argument of mcall/1 (must run in the calling module) and inside findall/3; from user, Module:Name is called for names defined there and for names neither defined nor imported; the tag returned must be the module the model resolves to, or an existence error must be raised where the name is not visible.',
    note='Layouts the documentation leaves open (a name imported from two modules, a name both defined and imported) are not generated. Module files are pulled in with use_module(File, [marker/0]) because an empty import list does not load the file.'),
 'C46': dict(
    level='exploration',
    technique='runtime monitoring: reference model (truth table over all assignments computed by the check) against sat/1, taut/2, sat_count/2 and labeling/1 of library(clpb) on randomly generated formulas',
    text='Random formulas of depth <= 4 over up to 6 variables and the constants 0 and 1 with every connective of library(clpb) (~ * + # =:= =\\= =< >= < > card/2 with integers and ranges, +(List), *(List)) are evaluated over all assignments by the check; sat/1 must succeed exactly for satisfiable formulas, taut/2 must give 1 / 0 / fail for tautologies / contradictions / other formulas, sat_count/2 must equal the number of models, labeling/1 after sat/1 must enumerate exactly the models, each once; the same after two posted constraints, and taut/2 and sat_count/2 under a posted constraint.',
    note='Formula size is bounded by depth 4 and 6 variables (the bound the property names); residual constraints printed by the toplevel are not examined.'),
 'C27': dict(
    level='exploration',
    technique='runtime monitoring: reference model (brute-force enumeration of the whole domain product by the check) against the labelled solutions of library(clpz), plus integer arithmetic of the check for ground constraints',
    text='Random systems of 1-4 constraints over 2-4 variables with interval domains inside -4..9 (also unions of two intervals), posted in random order relative to the domains: relations #= #\\= #< #=< #> #>= over expressions of depth <= 3 (+ - * abs min max // mod rem, unary minus), sum/3 with a random relation, all_different/1, all_distinct/1, reified combinations (#<==> #==> #\\/ #/\\ #\\) with a 0/1 variable; labelled with label/1 or labeling/2 under random strategy options; the list of solutions must equal, with multiplicity, the assignments that satisfy all constraints. Ground stratum: X #= ground expression equals the integer value (fails for a zero divisor) and ground relations agree with integer comparison.',
    note='Domains are small (the property says bounded domains); no division inside reified constraints (its meaning for a zero divisor is not documented); ^, tuples_in, element, circuit, cumulative and optimisation options are not generated.'),
 'C38': dict(
    level='exploration',
    technique='runtime monitoring: reference models computed by the check (naive least-fixpoint iteration for tabled Datalog programs; a direct interpreter for effect programs run under a reset/3 handler)',
    text='Tabling: random edge relations on 2-6 nodes (cycles, self loops) with left, right and double recursive transitive closure in either clause order and random range-restricted Datalog programs over two mutually recursive tabled predicates; calls with no, one or both arguments bound must return exactly the least-fixpoint answers, each once, within 60 s; on acyclic graphs the untabled right-recursive program must give the same set. reset/shift: random effect programs (get/put of a threaded state, yield, arithmetic on locals, two levels of sub-predicates that shift themselves, if-then-else, inner reset blocks that capture the yields of their block only) run under a handler written with reset/3; final state, list of yields and the output computed after the last shift must equal the interpreter of the check; reset/3 of a goal that never shifts gives none on every solution.',
    note='Shifts under backtracking into the continuation (non-deterministic continuations), tabled predicates with non-ground or non-atomic answers and abolish_all_tables/0 are not generated.'),
 'C18': dict(
    level='exploration',
    engine='chunkread',
    technique='runtime monitoring: in-process oracle (reference UTF-8 decoder over the whole byte string) on CharReader driven through a reader with prescribed chunk boundaries, with panic capture; plus a metamorphic monitor through the engine (same bytes sent to the input channel in one piece and in pieces)',
    text='Random byte strings (1-4 byte characters, lone continuation bytes, truncated, overlong and surrogate sequences, bytes F5-FF, sequences cut off by the end of the input, strings across the 8 KiB read size) are delivered in chunks of 1, 1-3, 1-9, mixed-with-8192 bytes or one piece under random interleavings of peek_char, read_char and put_back_char of the last character; every result (character, invalid sequence with its bytes, end) must equal the reference decoder at the same byte position and nothing may panic. Through the engine the same bytes are written to the machine input channel in one piece and in 1-5 byte pieces; the observations of peek_char/2 + get_char/2 until end_of_file, and of read_term/3 for valid texts, must be identical and, for valid UTF-8, equal to the characters of the text.',
    note='The input channel coalesces all pieces that have already arrived, so the engine-level monitor cannot place a boundary inside a character unless data arrives during the read; that case is covered by the in-process driver only. Sockets, pipes and TLS streams are not driven; they share CharReader. Miri was not run on the driver (the dependency tree of the crate does not build under Miri in the time available).'),
}

NOT_APPLICABLE_REASON_UNBUILT = ('check designed in DESIGN.md but not built/validated yet in this session; '
                                 'not claimed rather than registered in a weak form')


NA = {
 'C29': 'not built: needs the CLI toplevel driven over a pipe, a parser for its answer protocol and re-execution of printed answers (designed in DESIGN.md section 3; the embedded-query half is covered by C28); runtime monitoring applies, the monitor was not built and validated in time, so the property is not claimed',
 'C32': 'not built: needs a multi-threaded harness with yield points inside AtomTable::build_with and a ThreadSanitizer build (-Zbuild-std); without them a stress monitor would rarely reach the growth / epoch-recheck window; not claimed rather than claimed weakly (DESIGN.md section 6)',
 'C33': 'not built: the designed monitor (guard region after the heap allocation plus memcheck/ASan runs under fill-level stress) was not made; only an incidental heap length <= capacity comparison on every worker reply exists, which is not an out-of-bounds-write detector (DESIGN.md section 6)',
}
