"""Per-check manifest metadata. bin/mkmanifest turns this into MANIFEST.json."""

# id -> dict(level, technique, text, note, design_ref)
CHECKS = {
 'C01': dict(
    level='exploration',
    technique='runtime monitoring: reference-model oracle (Python int) over generated expressions, two real evaluation paths',
    text='Generated integer expressions (boundary lattice around 2^31/2^55/2^63/2^64, bignums, nested trees, shifts, powers, '
         'error cases, astronomically large results) are evaluated by the real engine both through is/2 on a run-time term and '
         'as literals in compiled clause bodies; every observation is compared with exact Python integer arithmetic and the '
         'prescribed error formals. Held on the executions observed (counts per stratum in the evidence), not a proof.',
    note='Trusted: Python int arithmetic; the engine\'s own integer printer for reading results; operand evaluation order is '
         'not prescribed (any erroring operand\'s error accepted). Only the functors the statement lists.'),
 'C02': dict(
    level='exploration',
    technique='runtime monitoring: reference-model oracle (IEEE doubles via Python float/libm, Fraction, exact ints) over generated expressions',
    text='Generated float-valued and rounding expressions (double lattice incl. subnormals, +-0, near-overflow, x.5 ties, '
         'integers beyond 2^53 and beyond f64::MAX, rationals, prescribed-error cases, depth<=3 nests) are evaluated by the real '
         'engine via run-time is/2 and compiled clause bodies and compared bit-exactly (1 ulp for libm/pow, counted) with the '
         'reference; missing/wrong evaluation_errors and non-finite results are refuting events.',
    note='Trusted: Python float = IEEE-754 binary64, math.* = the same glibc libm; <=1 ulp tolerated for libm/pow; sign of a '
         'zero result not observable through the printer; int/int division may round once or after promotion; only listed functors.'),
}

NOT_APPLICABLE_REASON_UNBUILT = ('check designed in DESIGN.md but not built/validated yet in this session; '
                                 'not claimed rather than registered in a weak form')
