"""Term model shared by all oracles.

Representation (hashable, comparison-safe tuples):
  ('i', n)            integer (Python int)
  ('f', bits)         float, bits = IEEE-754 binary64 bit pattern as int
  ('r', n, d)         rational (d > 1, lowest terms)
  ('a', name)         atom
  ('v', k)            variable (k: int from the dumper, or str name)
  ('c', name, args)   compound, args a tuple
  ('l', items, tail)  list cells: items a non-empty tuple, tail a term that is not an 'l' term
The empty list is ('a', '[]').
"""
import re
import unicodedata
import struct

NIL = ('a', '[]')


def mkint(n):
    return ('i', int(n))


def f2bits(x):
    return struct.unpack('<Q', struct.pack('<d', x))[0]


def bits2f(b):
    return struct.unpack('<d', struct.pack('<Q', b))[0]


def mkfloat(x):
    return ('f', f2bits(float(x)))


def fval(t):
    return bits2f(t[1])


def mkatom(s):
    return ('a', s)


def mkrat(n, d):
    from math import gcd
    if d < 0:
        n, d = -n, -d
    g = gcd(n, d)
    n, d = n // g, d // g
    if d == 1:
        return ('i', n)
    return ('r', n, d)


def mkvar(k):
    return ('v', k)


def mkc(name, *args):
    return ('c', name, tuple(args))


def mklist(items, tail=NIL):
    items = tuple(items)
    if tail[0] == 'l':
        items = items + tail[1]
        tail = tail[2]
    if not items:
        return tail
    return ('l', items, tail)


def mkstr(s):
    """The term a double-quoted string denotes (double_quotes=chars)."""
    return mklist([('a', ch) for ch in s])


def is_callable(t):
    return t[0] in ('a', 'c', 'l')


# --------------------------------------------------------------------------
# parser for the dumper's syntax (pl/vt.pl)

class ParseError(Exception):
    pass


_SYMCH = set('+-*/\\^<>=~:.?@#&$')
_TOK = re.compile(r'''
    (?P<ws>\s+)
  | (?P<num>\d+\.\d+(?:[eE][+-]?\d+)?|\d+)
  | (?P<var>_[A-Za-z0-9_]*|[A-Z][A-Za-z0-9_]*)
  | (?P<name>[a-z][A-Za-z0-9_]*)
  | (?P<q>')
  | (?P<punct>[()\[\]{},|!;])
  | (?P<sym>[+\-*/\\^<>=~:.?@#&$]+)
''', re.X)

_ESC = {'n': '\n', 't': '\t', 'r': '\r', 'a': '\a', 'b': '\b', 'f': '\f', 'v': '\v',
        '0': '\0', '\\': '\\', "'": "'", '"': '"', '`': '`'}


def _read_quoted(s, i):
    # s[i] is the char after the opening quote
    out = []
    n = len(s)
    while True:
        if i >= n:
            raise ParseError('unterminated quoted atom')
        c = s[i]
        if c == "'":
            if i + 1 < n and s[i + 1] == "'":
                out.append("'")
                i += 2
                continue
            return ''.join(out), i + 1
        if c == '\\':
            i += 1
            if i >= n:
                raise ParseError('bad escape')
            e = s[i]
            if e == 'x':
                j = s.index('\\', i + 1)
                out.append(chr(int(s[i + 1:j], 16)))
                i = j + 1
                continue
            if e.isdigit():
                j = s.index('\\', i)
                out.append(chr(int(s[i:j], 8)))
                i = j + 1
                continue
            if e == '\n':
                i += 1
                continue
            if e in _ESC:
                out.append(_ESC[e])
                i += 1
                continue
            raise ParseError('unknown escape \\' + e)
        out.append(c)
        i += 1


def tokenize(s):
    toks = []
    i = 0
    n = len(s)
    while i < n:
        m = _TOK.match(s, i)
        if not m:
            # any other character: a lone non-ASCII letter atom etc. -- accept a run of
            # "word" characters as a name (the engine prints such atoms unquoted)
            j = i
            while j < n and not s[j].isspace() and s[j] not in "()[]{},|'":
                j += 1
            if j == i:
                raise ParseError('cannot tokenize at %d: %r' % (i, s[i:i + 20]))
            toks.append(('name', s[i:j]))
            i = j
            continue
        k = m.lastgroup
        if k == 'ws':
            i = m.end()
            continue
        if k == 'q':
            txt, i = _read_quoted(s, m.end())
            toks.append(('qname', txt))
            continue
        if k == 'name':
            # names may continue with non-ASCII alphanumerics
            j = m.end()
            while j < n and (s[j].isalnum() or s[j] == '_' or (ord(s[j]) > 127 and not s[j].isspace())):
                j += 1
            toks.append(('name', s[i:j]))
            i = j
            continue
        toks.append((k, m.group(k)))
        i = m.end()
    toks.append(('end', ''))
    return toks


def parse_dump(s):
    """Parses one dumped term; returns the term."""
    toks = tokenize(s)
    t, i = _parse(toks, 0)
    if toks[i][0] != 'end':
        raise ParseError('trailing tokens: %r' % (toks[i:i + 5],))
    return t


def parse_dump_with_goals(s):
    """'<term> ~ <goals>' -> (term, goals-or-NIL)."""
    toks = tokenize(s)
    t, i = _parse(toks, 0)
    g = NIL
    if toks[i] == ('sym', '~'):
        g, i = _parse(toks, i + 1)
    if toks[i][0] != 'end':
        raise ParseError('trailing tokens: %r' % (toks[i:i + 5],))
    return t, g


def _num(txt, neg=False):
    if '.' in txt:
        x = float(txt)
        if neg:
            x = -x
        return mkfloat(x)
    n = int(txt)
    return ('i', -n if neg else n)


def _parse(toks, i):
    """Iterative-enough recursive descent: recursion only on nesting depth."""
    k, v = toks[i]
    if k == 'num':
        return _num(v), i + 1
    if k == 'var':
        if v.startswith('_G') and v[2:].isdigit():
            return ('v', int(v[2:])), i + 1
        return ('v', v), i + 1
    if k == 'punct' and v == '(':
        # bracketed atom (operators as atoms), e.g. (:-)
        t, j = _parse(toks, i + 1)
        if toks[j] != ('punct', ')'):
            raise ParseError('expected )')
        j += 1
        if t[0] == 'a' and toks[j] == ('punct', '('):
            return _args(toks, j + 1, t[1])
        return t, j
    if k == 'punct' and v == '[':
        if toks[i + 1] == ('punct', ']'):
            name = '[]'
            i += 2
            if toks[i] == ('punct', '('):
                return _args(toks, i + 1, name)
            return NIL, i
        items = []
        i += 1
        while True:
            t, i = _parse(toks, i)
            items.append(t)
            k2, v2 = toks[i]
            if (k2, v2) == ('punct', ','):
                i += 1
                continue
            if (k2, v2) == ('punct', '|'):
                tail, i = _parse(toks, i + 1)
                if toks[i] != ('punct', ']'):
                    raise ParseError('expected ] after tail')
                return mklist(items, tail), i + 1
            if (k2, v2) == ('punct', ']'):
                return mklist(items), i + 1
            raise ParseError('bad list at %r' % (toks[i:i + 3],))
    if k == 'punct' and v == '{':
        if toks[i + 1] == ('punct', '}'):
            name = '{}'
            i += 2
            if toks[i] == ('punct', '('):
                return _args(toks, i + 1, name)
            return ('a', name), i
        raise ParseError('unexpected {')
    if k in ('name', 'qname', 'sym') or (k == 'punct' and v in '!;|,'):
        name = v
        if k == 'sym' and v == '-' and toks[i + 1][0] == 'num':
            return _num(toks[i + 1][1], True), i + 2
        if k == 'sym' and v == '+' and toks[i + 1][0] == 'num' and False:
            pass
        i += 1
        if toks[i] == ('punct', '('):
            return _args(toks, i + 1, name)
        return ('a', name), i
    raise ParseError('unexpected token %r' % (toks[i],))


def _args(toks, i, name):
    args = []
    while True:
        t, i = _parse(toks, i)
        args.append(t)
        if toks[i] == ('punct', ','):
            i += 1
            continue
        if toks[i] == ('punct', ')'):
            break
        raise ParseError('bad args at %r' % (toks[i:i + 3],))
    i += 1
    if name == '$r' and len(args) == 2 and args[0][0] == 'i' and args[1][0] == 'i':
        return mkrat(args[0][1], args[1][1]), i
    if name == '.' and len(args) == 2:
        return mklist([args[0]], args[1]), i
    return ('c', name, tuple(args)), i


# --------------------------------------------------------------------------
# writer: Python term -> Prolog source text (functional notation, always safe to read)

_PLAIN = re.compile(r'\A[a-z][A-Za-z0-9_]*\Z')


def _needs_escape(ch):
    """control, unassigned, private-use, format and line/paragraph separator characters are written as \\xHH\\ escapes:
    the reader is not required to accept them raw inside quoted items"""
    o = ord(ch)
    if o < 0x20 or 0x7f <= o < 0xa0:
        return True
    if o < 0x2000:
        return False
    return unicodedata.category(ch) in ('Cc', 'Cn', 'Co', 'Cs', 'Cf', 'Zl', 'Zp')


def quote_atom(s):
    if _PLAIN.match(s) or s in ('[]', '{}', '!', ';'):
        return s
    out = ["'"]
    for ch in s:
        o = ord(ch)
        if ch == "'":
            out.append("\\'")
        elif ch == '\\':
            out.append('\\\\')
        elif ch == '\n':
            out.append('\\n')
        elif ch == '\t':
            out.append('\\t')
        elif _needs_escape(ch):
            out.append('\\x%x\\' % o)
        else:
            out.append(ch)
    out.append("'")
    return ''.join(out)


ALPHA_OPS = {'mod', 'rem', 'is', 'div', 'rdiv', 'xor', 'dynamic', 'discontiguous', 'initialization', 'meta_predicate',
             'module_transparent', 'multifile', 'public', 'table', 'volatile', 'thread_local', 'thread_initialization', 'as'}


# checks that install their own operators add the names here so that they are bracketed as operands
EXTRA_OPS = set()


def atom_operand(s):
    """text of an atom in operand/argument position: anything that could be an operator is bracketed"""
    q = quote_atom(s)
    if (_PLAIN.match(s) and s not in ALPHA_OPS and s not in EXTRA_OPS) or s in ('[]', '{}'):
        return q
    return '(' + q + ')'


def float_text(x):
    r = repr(float(x))
    if 'inf' in r or 'nan' in r:
        raise ValueError('non-finite float')
    if 'e' in r:
        m, e = r.split('e')
        if '.' not in m:
            m += '.0'
        e = int(e)
        return '%se%d' % (m, e)
    if '.' not in r:
        r += '.0'
    return r


def to_text(t, var_prefix='_G'):
    """Prolog text of a term. Rationals become (N rdiv D) expressions (only
    meaningful in evaluated positions); callers that need rational *values*
    bind them with is/2 first."""
    out = []
    stack = [t]
    while stack:
        x = stack.pop()
        if isinstance(x, str):
            out.append(x)
            continue
        k = x[0]
        if k == 'i':
            out.append(str(x[1]) if x[1] >= 0 else '-' + str(-x[1]))
        elif k == 'f':
            v = bits2f(x[1])
            if v < 0 or (v == 0 and str(v).startswith('-')):
                out.append('-' + float_text(-v))
            else:
                out.append(float_text(v))
        elif k == 'r':
            out.append('(%d rdiv %d)' % (x[1], x[2]))
        elif k == 'a':
            out.append(atom_operand(x[1]))
        elif k == 'v':
            out.append(('%s%d' % (var_prefix, x[1])) if isinstance(x[1], int) else x[1])
        elif k == 'c':
            out.append(quote_atom(x[1]))
            out.append('(')
            stack.append(')')
            for j in range(len(x[2]) - 1, -1, -1):
                stack.append(x[2][j])
                if j:
                    stack.append(',')
        elif k == 'l':
            out.append('[')
            stack.append(']')
            if x[2] != NIL:
                stack.append(x[2])
                stack.append('|')
            for j in range(len(x[1]) - 1, -1, -1):
                stack.append(x[1][j])
                if j:
                    stack.append(',')
        else:
            raise ValueError('bad term %r' % (x,))
    return ''.join(out)


def show(t):
    try:
        return to_text(t)
    except Exception:
        return repr(t)


def subterms(t):
    stack = [t]
    while stack:
        x = stack.pop()
        yield x
        if x[0] == 'c':
            stack.extend(x[2])
        elif x[0] == 'l':
            stack.extend(x[1])
            stack.append(x[2])


def term_vars(t):
    """variables in depth-first left-to-right first-occurrence order"""
    seen = []
    s = set()
    stack = [t]
    while stack:
        x = stack.pop()
        k = x[0]
        if k == 'v':
            if x not in s:
                s.add(x)
                seen.append(x)
        elif k == 'c':
            stack.extend(reversed(x[2]))
        elif k == 'l':
            stack.append(x[2])
            stack.extend(reversed(x[1]))
    return seen


def rename_canonical(t):
    """variant-normal form: variables renumbered by first occurrence"""
    vs = term_vars(t)
    if not vs:
        return t
    m = {v: ('v', i) for i, v in enumerate(vs)}
    return subst(t, m)


def subst(t, m):
    k = t[0]
    if k == 'v':
        return m.get(t, t)
    if k == 'c':
        return ('c', t[1], tuple(subst(a, m) for a in t[2]))
    if k == 'l':
        return mklist([subst(a, m) for a in t[1]], subst(t[2], m))
    return t


def variant(a, b):
    return rename_canonical(a) == rename_canonical(b)


# --------------------------------------------------------------------------
# varied rendering: the same abstract term written in different concrete syntaxes

def is_char_list(t):
    return t[0] == 'l' and all(x[0] == 'a' and len(x[1]) == 1 for x in t[1])


def dq_string(s):
    out = ['"']
    for ch in s:
        o = ord(ch)
        if ch == '"':
            out.append('\\"')
        elif ch == '\\':
            out.append('\\\\')
        elif ch == '\n':
            out.append('\\n')
        elif ch == '\t':
            out.append('\\t')
        elif _needs_escape(ch):
            out.append('\\x%x\\' % o)
        else:
            out.append(ch)
    out.append('"')
    return ''.join(out)


def to_text_varied(t, rng, pre=None, p_string=0.5, p_boxed=0.3):
    """Prolog text of t where proper char lists may be written as "strings", and
    (when `pre` is a list) integers may be replaced by variables bound by a
    bignum-passing computation and rationals by variables bound with rdiv; the
    binding goals are appended to `pre`."""
    def go(x):
        k = x[0]
        if k == 'l':
            if x[2] == NIL and is_char_list(x) and rng.random() < p_string:
                return dq_string(''.join(a[1] for a in x[1]))
            items = ','.join(go(a) for a in x[1])
            if x[2] != NIL:
                if is_char_list(x) and x[2][0] == 'v' and False:
                    pass
                return '[%s|%s]' % (items, go(x[2]))
            return '[%s]' % items
        if k == 'c':
            return '%s(%s)' % (quote_atom(x[1]), ','.join(go(a) for a in x[2]))
        if k == 'r':
            if pre is None:
                raise ValueError('rational needs a binding goal')
            v = '_R%d' % len(pre)
            pre.append('%s is %d rdiv %d' % (v, x[1], x[2]))
            return v
        if k == 'i' and pre is not None and rng.random() < p_boxed:
            v = '_B%d' % len(pre)
            B = rng.choice([1 << 60, 1 << 64, 10 ** 30])
            pre.append('%s is %d - %d + %s' % (v, B, B, ('(%d)' % x[1])))
            return v
        return to_text(x)
    return go(t)
