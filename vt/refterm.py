"""Reference term model: standard order, (rational-tree) unification, inspection."""
from fractions import Fraction

from .terms import NIL, mklist, bits2f, term_vars, subst as apply_map, rename_canonical


class Unpredicted(Exception):
    """the model makes no prediction (e.g. order of two distinct variables)"""


# ------------------------------------------------------------------ standard order (C13)

def _class(t):
    k = t[0]
    if k == 'v':
        return 0
    if k == 'f':
        return 1
    if k in ('i', 'r'):
        return 2
    if k == 'a':
        return 3
    return 4


def _numval(t):
    if t[0] == 'i':
        return t[1]
    if t[0] == 'r':
        return Fraction(t[1], t[2])
    return bits2f(t[1])


def _as_compound(t):
    """(name, args) view; list cells are '.'/2"""
    if t[0] == 'c':
        return t[1], t[2]
    items, tail = t[1], t[2]
    if len(items) == 1:
        return '.', (items[0], tail)
    return '.', (items[0], ('l', items[1:], tail))


def _cmp(a, b):
    return (a > b) - (a < b)


def compare(a, b):
    """-1/0/1 in the standard order of terms as C13 states it. Raises Unpredicted when
    the outcome depends on the relative age of two distinct variables."""
    stack = [(a, b)]
    while stack:
        x, y = stack.pop()
        if x == y:
            continue
        cx, cy = _class(x), _class(y)
        if cx != cy:
            return _cmp(cx, cy)
        if cx == 0:
            raise Unpredicted('variable order')
        if cx == 1:
            fx, fy = bits2f(x[1]), bits2f(y[1])
            if fx == fy:
                continue        # 0.0 vs -0.0: not asserted
            return _cmp(fx, fy)
        if cx == 2:
            c = _cmp(_numval(x), _numval(y))
            if c:
                return c
            continue
        if cx == 3:
            c = _cmp([ord(ch) for ch in x[1]], [ord(ch) for ch in y[1]])
            if c:
                return c
            continue
        # compounds: arity, name, args -- iterate long lists without recursion
        if x[0] == 'l' and y[0] == 'l':
            n = min(len(x[1]), len(y[1]))
            rest_x = x[2] if len(x[1]) == n else ('l', x[1][n:], x[2])
            rest_y = y[2] if len(y[1]) == n else ('l', y[1][n:], y[2])
            pairs = list(zip(x[1][:n], y[1][:n])) + [(rest_x, rest_y)]
            stack.extend(reversed(pairs))
            continue
        nx, ax = _as_compound(x)
        ny, ay = _as_compound(y)
        if len(ax) != len(ay):
            return _cmp(len(ax), len(ay))
        if nx != ny:
            return _cmp([ord(ch) for ch in nx], [ord(ch) for ch in ny])
        stack.extend(reversed(list(zip(ax, ay))))
    return 0


def sort_key_cmp():
    import functools
    return functools.cmp_to_key(compare)


def std_sort(items, dedup=True):
    out = sorted(items, key=sort_key_cmp())
    if dedup:
        res = []
        for t in out:
            if not res or compare(res[-1], t) != 0:
                res.append(t)
        return res
    return out


# ------------------------------------------------------------------ unification (C10)

def deref(t, s):
    while t[0] == 'v' and t in s:
        t = s[t]
    return t


def unify(a, b, s):
    """rational-tree unification; s: dict var -> term, extended in place. -> bool"""
    seen = set()
    stack = [(a, b)]
    while stack:
        x, y = stack.pop()
        x, y = deref(x, s), deref(y, s)
        if x == y:
            continue
        if x[0] == 'v':
            s[x] = y
            continue
        if y[0] == 'v':
            s[y] = x
            continue
        kx, ky = x[0], y[0]
        if kx in ('i', 'r', 'a') or ky in ('i', 'r', 'a'):
            return False
        if kx == 'f' or ky == 'f':
            if kx == 'f' and ky == 'f' and bits2f(x[1]) == bits2f(y[1]):
                continue
            return False
        key = (x, y)
        if key in seen:
            continue
        seen.add(key)
        nx, ax = _as_compound(x)
        ny, ay = _as_compound(y)
        if nx != ny or len(ax) != len(ay):
            return False
        stack.extend(zip(ax, ay))
    return True


class Cyclic(Exception):
    pass


def resolve(t, s):
    """applies s exhaustively; raises Cyclic if the result is an infinite tree"""
    onpath = set()

    def go(x, depth):
        x0 = x
        chain = []
        while x[0] == 'v' and x in s:
            if x in onpath:
                raise Cyclic()
            chain.append(x)
            onpath.add(x)
            x = s[x]
        try:
            if x[0] == 'c':
                return ('c', x[1], tuple(go(a, depth + 1) for a in x[2]))
            if x[0] == 'l':
                return mklist([go(a, depth + 1) for a in x[1]], go(x[2], depth + 1))
            return x
        finally:
            for v in chain:
                onpath.discard(v)

    return go(t, 0)


def has_finite_unifier(a, b):
    s = {}
    if not unify(a, b, s):
        return False
    try:
        for v in list(s):
            resolve(v, s)
    except Cyclic:
        return False
    return True


def is_ground(t):
    return not term_vars(t)


def subsumes(general, specific):
    """one-way matching without binding variables of `specific`"""
    s = {}
    frozen = set(term_vars(specific))
    stack = [(general, specific)]
    while stack:
        g, t = stack.pop()
        if g[0] == 'v' and g not in frozen:
            if g in s:
                if s[g] != t:
                    return False
            else:
                s[g] = t
            continue
        if g[0] == 'v':
            if g != t:
                return False
            continue
        if t[0] == 'v':
            return False
        if g[0] in ('i', 'r', 'a', 'f'):
            if g != t:
                return False
            continue
        ng, ag = _as_compound(g)
        if t[0] not in ('c', 'l'):
            return False
        nt, at = _as_compound(t)
        if ng != nt or len(ag) != len(at):
            return False
        stack.extend(zip(ag, at))
    return True
