"""Shared workload generators (pure functions of the rng they are given)."""
import struct

from .terms import mkint, mkfloat, mkc, mkatom, mkrat, mklist, mkvar, mkstr, NIL

BOUND_K = [7, 8, 15, 16, 31, 32, 52, 53, 55, 56, 62, 63, 64, 65, 127, 128]


def boundary_ints():
    s = {0, 1, -1, 2, -2, 3, 10, -10, 97, 255, 256}
    for k in BOUND_K:
        for d in (-2, -1, 0, 1, 2):
            s.add((1 << k) + d)
            s.add(-(1 << k) + d)
    return sorted(s)


BOUNDARY_INTS = boundary_ints()


def rand_int(rng):
    r = rng.random()
    if r < 0.45:
        return rng.choice(BOUNDARY_INTS)
    if r < 0.65:
        return rng.randint(-20, 20)
    if r < 0.85:
        bits = rng.randint(1, 300)
        v = rng.getrandbits(bits)
        return -v if rng.random() < 0.5 else v
    k = rng.choice(BOUND_K + [1000])
    v = (1 << k) + rng.randint(-3, 3)
    return -v if rng.random() < 0.5 else v


def int_class(n):
    a = abs(n)
    if a < (1 << 31):
        return 'small'
    if a < (1 << 55) or n == -(1 << 55):
        return 'fixnum'
    if a < (1 << 63) or n == -(1 << 63):
        return 'i64big'
    if a <= (1 << 65):
        return 'near64'
    return 'bignum'


SPECIAL_FLOATS = [0.0, -0.0, 1.0, -1.0, 0.5, -0.5, 1.5, 2.5, -2.5, 0.1, 1e-300, 1e300, 1.7976931348623157e308,
                  -1.7976931348623157e308, 5e-324, -5e-324, 2.2250738585072014e-308, 2.225073858507201e-308,
                  9007199254740992.0, 9007199254740993.0, 9007199254740994.0, 4503599627370496.5, 4503599627370497.5,
                  1e20, 1e22, 1e23, 4611686018427387904.0, 9223372036854775808.0, 18446744073709551616.0,
                  36028797018963968.0, -36028797018963968.0, 3.141592653589793, 2.718281828459045, 1e-5, 123456.789, 0.3,
                  1e15 + 0.5, 1e16, 0.49999999999999994, -0.49999999999999994]


def rand_float(rng):
    r = rng.random()
    if r < 0.4:
        return rng.choice(SPECIAL_FLOATS)
    if r < 0.6:
        # uniform in bit pattern (finite)
        while True:
            b = rng.getrandbits(64)
            if (b >> 52) & 0x7ff != 0x7ff:
                return struct.unpack('<d', struct.pack('<Q', b))[0]
    if r < 0.8:
        return rng.uniform(-100, 100)
    if r < 0.9:
        return float(rng.randint(-1000, 1000)) + rng.choice([0.0, 0.5, 0.25])
    return rng.choice([1, -1]) * 2.0 ** rng.randint(-1074, 1023) * rng.choice([1.0, 1.5, 1.9999999999999998])


def rand_rat(rng):
    while True:
        n = rand_int(rng) if rng.random() < 0.5 else rng.randint(-50, 50)
        d = rng.choice([2, 3, 5, 7, 10, 1 << 60, (1 << 64) + 1, 3 ** 40, rng.randint(2, 1000)])
        t = mkrat(n, d)
        if t[0] == 'r':
            return t


ATOMS = ['a', 'b', 'c', 'foo', 'bar', '[]', '{}', 'X', '_x', 'hello world', '+', '-', '*', ':-', '=', 'é', '日本',
         '', "don't", 'a\\b', 'nl\n', '!', ';', ',', '|', 'f', 'g', 'point', '.', 'abcdefghij', 'zzzzzz', 'zzzzzzz']
SIMPLE_ATOMS = ['a', 'b', 'c', 'd', 'foo', 'bar', 'baz', 'f', 'g', 'h', 'k', 'nil', 'x', 'y', 'z']


def rand_atomic(rng, floats=True, rats=False):
    r = rng.random()
    if r < 0.35:
        return mkatom(rng.choice(SIMPLE_ATOMS))
    if r < 0.45:
        return mkatom(rng.choice(ATOMS))
    if r < 0.8 or not floats:
        if rng.random() < 0.6:
            return mkint(rng.randint(-5, 12))
        return mkint(rand_int(rng))
    x = rand_float(rng)
    return mkfloat(0.0 if x == 0 else x)     # the sign of zero is not observable in printed terms


def rand_term(rng, depth=3, nvars=3, strings=True, floats=True, atoms=None):
    """ground-or-not term of bounded depth; variables drawn from ('v', 0..nvars-1)"""
    r = rng.random()
    if depth <= 0 or r < 0.3:
        if nvars and rng.random() < 0.25:
            return mkvar(rng.randrange(nvars))
        if atoms is not None and rng.random() < 0.7:
            return mkatom(rng.choice(atoms))
        return rand_atomic(rng, floats=floats)
    if r < 0.5:
        n = rng.randint(0, 4)
        items = [rand_term(rng, depth - 1, nvars, strings, floats, atoms) for _ in range(n)]
        tail = NIL
        if nvars and rng.random() < 0.15:
            tail = mkvar(rng.randrange(nvars))
        return mklist(items, tail)
    if r < 0.6 and strings:
        return mkstr(rng.choice(['', 'a', 'ab', 'abc', 'hello', 'abcdefg', 'abcdefgh', 'abcdefghi', 'a b', 'é', 'x\x00y'][:10]))
    name = rng.choice(['f', 'g', 'h', 'p', '-', '+', 'foo', '.', 'point', '{}'] if atoms is None else ['f', 'g', 'h'])
    ar = rng.randint(1, 3)
    if name == '{}':
        ar = 1
    if name == '.':
        name = 'dot'
    return mkc(name, *[rand_term(rng, depth - 1, nvars, strings, floats, atoms) for _ in range(ar)])
