"""Driver side of plworker: JSON lines over two dedicated pipes, rlimits, time-outs."""
import json
import os
import resource
import select
import signal
import subprocess
import time

from . import terms
from .build import VERIF

VT_PL = os.path.join(VERIF, 'pl', 'vt.pl')


class WorkerDied(Exception):
    def __init__(self, status, stderr=''):
        Exception.__init__(self, 'worker died: %r' % (status,))
        self.status = status
        self.stderr = stderr


class WorkerTimeout(Exception):
    pass


def _limits(as_gib, cpu_s):
    def f():
        os.setpgrp()
        if as_gib:
            b = int(as_gib * (1 << 30))
            resource.setrlimit(resource.RLIMIT_AS, (b, b))
        if cpu_s:
            resource.setrlimit(resource.RLIMIT_CPU, (cpu_s, cpu_s + 5))
        resource.setrlimit(resource.RLIMIT_CORE, (0, 0))
    return f


class Worker:
    def __init__(self, binpath, as_gib=8, cpu_s=3600, timeout=60.0, stderr_path=None):
        self.binpath = binpath
        self.as_gib = as_gib
        self.cpu_s = cpu_s
        self.timeout = timeout
        self.p = None
        self.jobs_sent = 0
        self.restarts = 0
        self.heap_violation = None   # first observed heap_len > heap_cap (C33 incidental monitor)
        self.stderr_path = stderr_path
        self.setup_jobs = []      # re-sent after every machine rebuild (panic) or process restart
        self._need_setup = False
        self._start()

    def _start(self):
        jr, jw = os.pipe()
        rr, rw = os.pipe()
        env = dict(os.environ)
        env['RUST_BACKTRACE'] = '0'
        self._errf = open(self.stderr_path, 'ab') if self.stderr_path else subprocess.DEVNULL
        self.p = subprocess.Popen(
            [self.binpath, str(jr), str(rw), VT_PL],
            pass_fds=(jr, rw), stdin=subprocess.DEVNULL,
            stdout=self._errf, stderr=self._errf,
            preexec_fn=_limits(self.as_gib, self.cpu_s), env=env, close_fds=True)
        os.close(jr)
        os.close(rw)
        self.jw = os.fdopen(jw, 'wb', buffering=0)
        self.rfd = rr
        self.rbuf = b''

    def close(self):
        if self.p is None:
            return
        try:
            self.jw.close()
        except Exception:
            pass
        try:
            os.killpg(self.p.pid, signal.SIGKILL)
        except Exception:
            pass
        try:
            self.p.wait(timeout=5)
        except Exception:
            pass
        try:
            os.close(self.rfd)
        except Exception:
            pass
        if self._errf is not subprocess.DEVNULL:
            self._errf.close()
        self.p = None

    def restart(self):
        self.close()
        self.restarts += 1
        self._need_setup = True
        self._start()

    def setup(self, jobs):
        """jobs that establish the machine state every case relies on (libraries, helpers)"""
        self.setup_jobs = list(jobs)
        for sj in self.setup_jobs:
            self.job(sj)

    def use_modules(self, libs, extra_jobs=()):
        q = ', '.join('use_module(library(%s))' % l for l in libs) + '.'
        self.setup([{'op': 'raw', 'query': q}] + list(extra_jobs))

    def _readline(self, timeout):
        deadline = time.time() + timeout
        while b'\n' not in self.rbuf:
            left = deadline - time.time()
            if left <= 0:
                raise WorkerTimeout()
            r, _, _ = select.select([self.rfd], [], [], min(left, 1.0))
            if r:
                chunk = os.read(self.rfd, 1 << 16)
                if not chunk:
                    st = self.p.wait()
                    raise WorkerDied(st)
                self.rbuf += chunk
            elif self.p.poll() is not None:
                # drain what is left
                try:
                    chunk = os.read(self.rfd, 1 << 16)
                except OSError:
                    chunk = b''
                if chunk:
                    self.rbuf += chunk
                    continue
                raise WorkerDied(self.p.returncode)
        line, self.rbuf = self.rbuf.split(b'\n', 1)
        return line

    def job(self, job, timeout=None):
        """Sends one job; returns the reply dict. Raises WorkerDied / WorkerTimeout
        (after which the worker has been restarted)."""
        if self._need_setup and self.setup_jobs:
            self._need_setup = False
            for sj in self.setup_jobs:
                self.job(sj)
        data = (json.dumps(job) + '\n').encode('utf-8')
        try:
            self.jw.write(data)
            self.jobs_sent += 1
            line = self._readline(timeout or self.timeout)
        except WorkerTimeout:
            self.restart()
            raise
        except (WorkerDied, BrokenPipeError, OSError) as e:
            st = None
            try:
                st = self.p.wait(timeout=5)
            except Exception:
                pass
            self.restart()
            if isinstance(e, WorkerDied):
                raise
            raise WorkerDied(st)
        rep = json.loads(line.decode('utf-8', 'replace'))
        if rep.get('panic'):
            self._need_setup = True
        hl = rep.get('hl')
        if hl is not None and hl > rep.get('hc', 1 << 62) and self.heap_violation is None:
            self.heap_violation = {'job': job, 'heap_byte_len': hl, 'heap_byte_cap': rep.get('hc')}
        return rep

    # ---- conveniences -------------------------------------------------
    def new(self):
        return self.job({'op': 'new'})

    def load(self, module, text):
        return self.job({'op': 'load', 'module': module, 'text': text})

    def run(self, goal, limit=1000, det=False, timeout=None, fp=False, only_r=False):
        """Runs a goal through vt:run/2. Returns Result."""
        g = goal.rstrip() + ' .'      # callers pass the goal without its end token
        job = {'op': 'run', 'goal': g, 'limit': limit}
        if det:
            job['pred'] = 'rund'
        if only_r:
            job['pred'] = 'runr'
        if fp:
            job['fp'] = True
        rep = self.job(job, timeout=timeout)
        return Result(rep, job)


class Result:
    """Parsed outcome of a vt:run job.
       sols: list of (bindings dict name->term, residual goals term)
       end:  'exhausted' | 'more' | ('exception', term) | ('parse_error', term) | ('panic', info) | ('garbled', text)
    """
    __slots__ = ('rep', 'job', 'sols', 'dets', 'end', 'extra', 'bad')

    def __init__(self, rep, job):
        self.rep = rep
        self.job = job
        self.sols = []
        self.dets = []
        self.end = None
        self.extra = []
        self.bad = None
        if rep.get('panic'):
            self.end = ('panic', rep['panic'])
            return
        out = rep.get('out', '')
        for line in out.split('\n'):
            if not line:
                continue
            try:
                if line.startswith('S '):
                    t, g = terms.parse_dump_with_goals(line[2:])
                    b = {}
                    if t != terms.NIL:
                        for eq in t[1]:
                            b[eq[2][0][1]] = eq[2][1]
                    self.sols.append((b, g))
                    self.dets.append(False)
                elif line == 'D':
                    if self.dets:
                        self.dets[-1] = True
                elif line.startswith('E exception('):
                    self.end = ('exception', terms.parse_dump(line[len('E exception('):-1]))
                elif line == 'E exhausted':
                    self.end = 'exhausted'
                elif line == 'E more':
                    self.end = 'more'
                elif line.startswith('P '):
                    self.end = ('parse_error', terms.parse_dump(line[2:]))
                else:
                    self.extra.append(line)
            except (terms.ParseError, ValueError, IndexError, RecursionError) as e:
                self.bad = (line, str(e))
        if self.end is None:
            self.end = ('garbled', out[-300:])

    def formal(self):
        """for an exception end: the formal of error(Formal, _), else the ball"""
        if isinstance(self.end, tuple) and self.end[0] == 'exception':
            b = self.end[1]
            if b[0] == 'c' and b[1] == 'error' and len(b[2]) == 2:
                return b[2][0]
            return b
        return None

    def brief(self):
        if isinstance(self.end, tuple):
            if self.end[0] in ('exception', 'parse_error'):
                e = (self.end[0], terms.show(self.end[1]))
            else:
                e = self.end
        else:
            e = self.end
        return {'sols': [{k: terms.show(v) for k, v in b.items()} for b, _ in self.sols[:5]],
                'nsols': len(self.sols), 'end': e}
