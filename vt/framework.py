"""Check runner: build, shard over processes, merge, known findings, evidence, verdict."""
import collections
import hashlib
import importlib
import json
import multiprocessing
import os
import random
import sys
import time
import traceback

from . import build as vbuild
from .build import VERIF
from .worker import Worker, WorkerDied, WorkerTimeout

NSHARDS = int(os.environ.get('VERIF_SHARDS', '16'))


def h64(obj):
    if not isinstance(obj, (bytes, str)):
        obj = repr(obj)
    if isinstance(obj, str):
        obj = obj.encode('utf-8', 'surrogatepass')
    return int.from_bytes(hashlib.blake2b(obj, digest_size=8).digest(), 'little')


class Rec:
    """Per-shard recorder; merged across shards."""

    def __init__(self):
        self.evaluations = 0
        self.strata = collections.Counter()
        self.distinct = set()
        self.samples = []
        self.violations = []     # (sig dict, witness dict)
        self.inconclusive = collections.Counter()
        self.info = collections.Counter()   # free-form measured counters
        self.sets = collections.defaultdict(set)   # free-form measured distinct-sets
        self.errors = []         # harness errors (strings)
        self.sample_cap = 6

    def case(self, stratum, key=None, nontrivial=True, n=1):
        self.evaluations += n
        self.strata[stratum] += n
        if nontrivial and key is not None:
            self.distinct.add(h64(key))

    def sample(self, obj, force=False):
        if force or len(self.samples) < self.sample_cap:
            self.samples.append(obj)

    def violation(self, sig, witness):
        if len(self.violations) < 400:
            self.violations.append((sig, witness))
        self.info['violations_raw'] += 1

    def inconc(self, reason):
        self.inconclusive[reason] += 1

    def merge(self, o):
        self.evaluations += o.evaluations
        self.strata.update(o.strata)
        self.distinct |= o.distinct
        for s in o.samples:
            if len(self.samples) < 12:
                self.samples.append(s)
        self.violations.extend(o.violations)
        self.inconclusive.update(o.inconclusive)
        self.info.update(o.info)
        for k, v in o.sets.items():
            self.sets[k] |= v
        self.errors.extend(o.errors)


class Ctx:
    def __init__(self, check_id, tier, seed, shard, nshards, bins, params):
        self.check_id = check_id
        self.tier = tier
        self.seed = seed
        self.shard = shard
        self.nshards = nshards
        self.bins = bins
        self.params = params
        self.rng = random.Random(h64('%s/%s/%d/%d' % (check_id, tier, seed, shard)))
        self.rec = Rec()
        self.t0 = time.time()
        self._workers = []
        self.scratch = os.path.join(VERIF, '.scratch', '%s-%d-%d' % (check_id, os.getpid(), shard))

    def worker(self, **kw):
        w = Worker(self.bins['plworker'], **kw)
        self._workers.append(w)
        return w

    def elapsed(self):
        return time.time() - self.t0

    def scratch_dir(self):
        os.makedirs(self.scratch, exist_ok=True)
        return self.scratch

    def close(self):
        for w in self._workers:
            if w.heap_violation is not None:
                self.rec.violation({'kind': 'heap_len_gt_cap', 'incidental': True},
                                   {'note': 'heap byte_len > byte_cap observed after a job (C33 monitor)',
                                    **w.heap_violation})
            w.close()
        if os.path.isdir(self.scratch):
            import shutil
            shutil.rmtree(self.scratch, ignore_errors=True)


def _run_shard(args):
    modname, tier, seed, shard, nshards, bins, params = args
    mod = importlib.import_module(modname)
    ctx = Ctx(mod.ID, tier, seed, shard, nshards, bins, params)
    try:
        mod.shard(ctx)
    except Exception:
        ctx.rec.errors.append('shard %d: %s' % (shard, traceback.format_exc()[-3000:]))
    finally:
        ctx.close()
    return ctx.rec


def load_known(check_id):
    p = os.path.join(VERIF, 'known_findings.json')
    if not os.path.exists(p):
        return []
    with open(p) as f:
        d = json.load(f)
    return [k for k in d.get('findings', []) if k.get('property') == check_id]


def sig_matches(entry_sig, sig):
    for k, v in entry_sig.items():
        if isinstance(v, list):
            if sig.get(k) not in v:
                return False
        elif sig.get(k) != v:
            return False
    return True


def jsonable(x):
    if isinstance(x, (str, int, float, bool)) or x is None:
        return x
    if isinstance(x, dict):
        return {str(k): jsonable(v) for k, v in x.items()}
    if isinstance(x, (list, tuple, set, frozenset)):
        return [jsonable(v) for v in x]
    if isinstance(x, bytes):
        return x.hex()
    return repr(x)


def run_check(modname, tier, seed, replay=None):
    mod = importlib.import_module(modname)
    cid = mod.ID
    t0 = time.time()
    try:
        bins = vbuild.build('rel')
        extra_builds = getattr(mod, 'BUILDS', {}).get(tier, [])
        for kind in extra_builds:
            bins[kind] = vbuild.build(kind)
    except vbuild.BuildError as e:
        print('HARNESS-ERROR property=%s build failed: %s' % (cid, e))
        return 2
    params = getattr(mod, 'PARAMS', {}).get(tier, {})
    if replay:
        with open(replay) as f:
            w = json.load(f)
        ctx = Ctx(cid, tier, seed, 0, 1, bins, params)
        try:
            if hasattr(mod, 'replay'):
                rc = mod.replay(ctx, w)
            else:
                rc = default_replay(ctx, w)
        finally:
            ctx.close()
        return rc
    nshards = getattr(mod, 'SHARDS', {}).get(tier, NSHARDS)
    args = [(modname, tier, seed, s, nshards, bins, params) for s in range(nshards)]
    if nshards == 1:
        recs = [_run_shard(args[0])]
    else:
        mpctx = multiprocessing.get_context('fork')
        with mpctx.Pool(min(nshards, NSHARDS)) as pool:
            recs = pool.map(_run_shard, args, chunksize=1)
    rec = Rec()
    for r in recs:
        rec.merge(r)
    if hasattr(mod, 'post'):
        try:
            mod.post(rec, tier, seed, bins)
        except Exception:
            rec.errors.append('post: ' + traceback.format_exc()[-3000:])

    known = load_known(cid)
    known_seen = collections.Counter()
    unlisted = []
    for sig, wit in rec.violations:
        hit = None
        for k in known:
            if sig_matches(k['signature'], sig):
                hit = k
                break
        if hit is not None:
            known_seen[hit['id']] += 1
        else:
            unlisted.append((sig, wit))

    # verdict inputs
    minima = getattr(mod, 'MIN_EVAL', {}).get(tier, 1)
    need_strata = getattr(mod, 'STRATA', [])
    missing = [s for s in need_strata if rec.strata.get(s, 0) == 0]
    problems = []
    if rec.errors:
        problems.append('harness errors: %d' % len(rec.errors))
    if rec.evaluations < minima:
        problems.append('evaluations %d < minimum %d' % (rec.evaluations, minima))
    if missing:
        problems.append('empty strata: %s' % ','.join(missing[:8]))
    if hasattr(mod, 'minima'):
        problems.extend(mod.minima(rec, tier) or [])

    os.makedirs(os.path.join(VERIF, 'evidence'), exist_ok=True)
    rdir = os.path.join(VERIF, 'replay', cid)
    os.makedirs(rdir, exist_ok=True)
    for fn in os.listdir(rdir):
        if fn.startswith('%d-' % seed):
            os.unlink(os.path.join(rdir, fn))
    replay_paths = []
    seen_sigs = set()
    for i, (sig, wit) in enumerate(unlisted):
        key = json.dumps(jsonable(sig), sort_keys=True)
        if key in seen_sigs:
            continue
        seen_sigs.add(key)
        if len(replay_paths) >= 25:
            break
        p = os.path.join(VERIF, 'replay', cid, '%d-%d.json' % (seed, i))
        with open(p, 'w') as f:
            json.dump(jsonable({'property': cid, 'signature': sig, 'witness': wit, 'tier': tier, 'seed': seed}), f, indent=1)
        replay_paths.append((sig, p))

    wall = time.time() - t0
    cov = {
        'evaluations': rec.evaluations,
        'distinct_nontrivial': len(rec.distinct),
        'rule': getattr(mod, 'RULE', ''),
        'samples': jsonable(rec.samples[:12]),
        'strata': dict(rec.strata),
        'observed': {k: v for k, v in rec.info.items()},
        'distinct_sets': {k: len(v) for k, v in rec.sets.items()},
        'inconclusive': dict(rec.inconclusive),
        'known_findings_seen': dict(known_seen),
        'unlisted_violations': len(unlisted),
        'harness_errors': rec.errors[:5],
        'verdict_problems': problems,
        'shards': nshards,
        'build_s': bins.get('build_s'),
    }
    ev = {
        'property_id': cid,
        'tier': tier,
        'seed': seed,
        'level': getattr(mod, 'LEVEL', 'exploration'),
        'coverage': cov,
        'assumptions': getattr(mod, 'ASSUMPTIONS', []),
        'wall_s': round(wall, 2),
        'violations': len(unlisted),
    }
    with open(os.path.join(VERIF, 'evidence', cid + '.json'), 'w') as f:
        json.dump(ev, f, indent=1, sort_keys=True)

    for k in known:
        if known_seen.get(k['id']):
            print('KNOWN-FINDING: property=%s %s [%s seen %d times]' % (cid, k['what'], k['id'], known_seen[k['id']]))
    print('property=%s tier=%s seed=%d evaluations=%d distinct=%d strata=%d wall=%.1fs' % (
        cid, tier, seed, rec.evaluations, len(rec.distinct), len(rec.strata), wall))
    if unlisted:
        for sig, p in replay_paths:
            print('VIOLATION property=%s replay=%s' % (cid, p))
            print('  signature: %s' % json.dumps(jsonable(sig), sort_keys=True)[:400])
        return 1
    if problems:
        for e in rec.errors[:3]:
            sys.stderr.write(e + '\n')
        print('INCONCLUSIVE property=%s %s' % (cid, '; '.join(problems)))
        return 2
    return 0


def default_replay(ctx, w):
    wit = w.get('witness', {})
    jobs = wit.get('jobs')
    if not jobs:
        print(json.dumps(w, indent=1)[:4000])
        print('(no job list recorded; witness shown above)')
        return 0
    wk = ctx.worker()
    for j in jobs:
        try:
            rep = wk.job(j)
        except (WorkerDied, WorkerTimeout) as e:
            print('job %r -> %r' % (j, e))
            continue
        print('job %s\n  -> %s' % (json.dumps(j)[:500], json.dumps(rep)[:1500]))
    print('expected: %s' % json.dumps(wit.get('expected'))[:1500])
    print('observed when recorded: %s' % json.dumps(wit.get('observed'))[:1500])
    return 0
