"""C03 Arithmetic does not depend on how the expression reaches is/2.

Oracle: differential between real evaluation contexts of the same expression tree
(no reference model decides; the reference value is attached for triage only)."""
from .. import refnum, arith
from ..refnum import Unmodelled
from ..terms import mkint, mkfloat, mkc, mkatom, to_text, show
from ..gen import rand_int, rand_float, rand_rat
from . import c01, c02

ID = 'C03'
LEVEL = 'exploration'
RULE = ('expression trees over every evaluable functor the compiler has an instruction for (unary: - + abs sign \\ float '
        'truncate round ceiling floor float_integer_part float_fractional_part sqrt exp log sin cos tan asin acos atan; '
        'binary: + - * / // div mod rem rdiv ** ^ min max gcd >> << /\\ \\/ xor atan2) with every operand-type combination '
        '(small int, bignum, boxed-small, rational, float), including ill-typed and error-raising trees; each tree is '
        'evaluated in 8 contexts (run-time is/2, literal in a compiled clause, call/3, inside findall/3, body of an asserted '
        'clause, both sides of =:= at run time, compiled as a plain body goal and compiled as an if-then-else condition) and all observations (type-tagged value or error formal) must '
        'coincide; distinct = distinct expression texts; every case is non-trivial')
PARAMS = {'quick': {'n': 1500}, 'thorough': {'n': 60000}}
MIN_EVAL = {'quick': 15000, 'thorough': 600000}
ASSUMPTIONS = ['only equality of observations between contexts is required, not their correctness (that is C01/C02)',
               'error context (second argument of error/2) is implementation defined and ignored']

UN = ['-', '+', 'abs', 'sign', '\\', 'float', 'truncate', 'round', 'ceiling', 'floor', 'float_integer_part',
      'float_fractional_part', 'sqrt', 'exp', 'log', 'sin', 'cos', 'tan', 'asin', 'acos', 'atan']
BIN = ['+', '-', '*', '/', '//', 'div', 'mod', 'rem', 'rdiv', '**', '^', 'min', 'max', 'gcd', '>>', '<<', '/\\', '\\/', 'xor', 'atan2']
STRATA = ['un:' + f for f in UN] + ['bin:' + f for f in BIN]
SETUP = ":- dynamic(c03d/1).\n"


def leaf(rng):
    r = rng.random()
    if r < 0.3:
        return mkint(rng.randint(-9, 9))
    if r < 0.5:
        return mkint(rand_int(rng))
    if r < 0.6:
        B = rng.choice([1 << 60, 1 << 64])
        return mkc('+', mkc('-', mkint(B), mkint(B)), mkint(rng.randint(-3, 3)))
    if r < 0.75:
        return rand_rat(rng)
    if r < 0.9:
        return mkfloat(rng.choice([rng.uniform(-10, 10), float(rng.randint(-5, 5)), rand_float(rng)]))
    return mkatom(rng.choice(['pi', 'e', 'epsilon']))


def small_leaf(rng):
    return rng.choice([mkint(rng.randint(-3, 70)), mkfloat(float(rng.randint(-2, 5))), mkint(rng.choice([63, 64, 65, -1, 200]))])


def gen(rng, i, depth):
    if depth <= 0:
        return leaf(rng)
    if i % 2 == 0 or rng.random() < 0.3:
        f = UN[(i // 2) % len(UN)] if depth == 1 else rng.choice(UN)
        return mkc(f, gen(rng, i, depth - 1) if depth > 1 else leaf(rng))
    f = BIN[(i // 2) % len(BIN)] if depth == 1 else rng.choice(BIN)
    a = gen(rng, i + 1, depth - 1) if depth > 1 else leaf(rng)
    if f in ('^', '**', '>>', '<<'):
        b = small_leaf(rng)
        if f in ('^', '**') and a[0] == 'i' and abs(a[1]) > 1000:
            a = mkint(rng.randint(-12, 12))
    else:
        b = gen(rng, i + 2, depth - 1) if depth > 1 else leaf(rng)
    return mkc(f, a, b)


def too_big(expr):
    """keeps bignum results bounded (the engine would compute them, slowly)"""
    try:
        refnum.eval_num(expr)
    except Unmodelled as e:
        return 'huge' in str(e)
    except Exception:
        return False
    return False


def shard(ctx):
    rec = ctx.rec
    rng = ctx.rng
    w = ctx.worker()
    w.use_modules(['lists'], extra_jobs=[{'op': 'load', 'module': 'user', 'text': SETUP}])
    n = ctx.params['n']
    batch = []
    seen = set()
    for i in range(n):
        depth = 1 if i % 3 else rng.choice([2, 3])
        expr = gen(rng, i + ctx.shard * 41, depth)
        if expr[0] != 'c' or too_big(expr):
            continue
        txt = to_text(expr)
        if txt in seen:
            continue
        seen.add(txt)
        batch.append((expr, txt))
        if len(batch) >= 30:
            run_batch(ctx, w, batch)
            batch = []
    if batch:
        run_batch(ctx, w, batch)


def norm(obs):
    if obs[0] in ('val', 'err'):
        return (obs[0], obs[1])
    return (obs[0], None)


def run_batch(ctx, w, batch):
    rec = ctx.rec
    clauses = ''.join('c03_%d(X) :- X is %s.\nc03c_%d(X) :- %s =:= %s, X = eq.\nc03i_%d(X) :- ( %s =:= %s -> X = eq ; X = ne ).\n'
                      % (j, txt, j, txt, txt, j, txt, txt) for j, (_, txt) in enumerate(batch))
    compiled_ok = arith.load_clauses(rec, w, clauses)
    if not compiled_ok:
        rec.inconc('batch-load-failed')
    for j, (expr, txt) in enumerate(batch):
        goals = [('meta', 'X is ' + txt), ('call3', 'call(is, X, %s)' % txt),
                 ('findall', 'findall(Y, Y is %s, L), L = [X]' % txt),
                 ('asserted', 'retractall(c03d(_)), assertz((c03d(Y) :- Y is %s)), c03d(X)' % txt),
                 ('cmp-meta', '( %s =:= %s -> X = eq ; X = ne )' % (txt, txt))]
        if compiled_ok:
            goals += [('compiled', 'c03_%d(X)' % j), ('cmp-compiled', 'c03c_%d(X)' % j), ('cmp-compiled-ite', 'c03i_%d(X)' % j)]
        stratum = ('un:' if len(expr[2]) == 1 else 'bin:') + expr[1]
        obs = {}
        for name, goal in goals:
            o = arith.run_goal(w, goal)
            if o[0] == 'died':
                compiled_ok = False
            obs[name] = o
        rec.case(stratum, txt, n=len(goals))
        rec.info['contexts_observed'] += len(goals)
        base = norm(obs['meta'])
        bad = None
        for name, _ in goals:
            o = norm(obs[name])
            if o[0] in ('panic', 'died'):
                bad = (name, 'crash')
                break
            if o[0] == 'timeout':
                rec.inconc('timeout')
                continue
            if name.startswith('cmp-'):
                want = ('val', ('a', 'eq')) if base[0] == 'val' else base
                if o != want:
                    bad = (name, 'differs')
                    break
            elif o != base:
                bad = (name, 'differs')
                break
        if base[0] == 'err':
            rec.info['error_cases'] += 1
        if bad is None:
            if len(rec.samples) < 5 and j % 11 == 0:
                rec.sample({'expression': txt, 'contexts': [g[0] for g in goals], 'common_observation': arith.show_obs(obs['meta'])})
            continue
        sig = {'kind': 'context_' + bad[1], 'context': bad[0], 'op': expr[1],
               'arg_kinds': ','.join(a[0] for a in expr[2])}
        if bad[0] == 'cmp-compiled-ite':
            # keyed narrowly: the only discrepancy is the if-then-else form taking its else branch
            others_ok = all(norm(obs[nm]) == (base if not nm.startswith('cmp-') else (('val', ('a', 'eq')) if base[0] == 'val' else base))
                            for nm, _ in goals if nm != 'cmp-compiled-ite')
            if others_ok and norm(obs[bad[0]]) == ('val', ('a', 'ne')):
                sig = {'kind': 'compiled_ite_condition_comparison_fails', 'context': 'cmp-compiled-ite'}
        arith.panic_sig(sig, obs[bad[0]])
        rec.violation(sig, {'expression': txt, 'observations': {k: arith.show_obs(v) for k, v in obs.items()},
                            'jobs': [{'op': 'load', 'module': 'user', 'text': SETUP + 'c03_0(X) :- X is %s.\n' % txt}]
                                    + [{'op': 'run', 'goal': g.replace('c03_%d(' % j, 'c03_0(') + ' .', 'limit': 3} for _, g in goals if 'c03c_' not in g]})
