"""C04 Arithmetic comparison is exact and self-consistent.

Oracle: reference ordering (exact for ints/rationals, via correctly rounded double when a
float is involved) + internal consistency of the six predicates, on run-time goals and on
comparisons compiled into clause bodies."""
from fractions import Fraction
import math

from .. import refnum, arith
from ..refnum import ArithError, Unmodelled
from ..terms import mkint, mkfloat, mkc, mkatom, to_text, show, bits2f, mklist
from ..gen import rand_int, rand_float, rand_rat, BOUNDARY_INTS
from ..worker import WorkerDied, WorkerTimeout

ID = 'C04'
LEVEL = 'exploration'
RULE = ('pairs of numbers (small ints, bignums, boxed-small results of bignum arithmetic, rationals, doubles) with strata for '
        'values differing only beyond 53 bits, across the 2^55 small-integer boundary, rationals with denominator 1, +-0.0, '
        'bignum vs float near 2^63/2^64, promotion overflow; all six predicates observed (run-time call and compiled in a '
        'clause body) and compared with the reference ordering; non-trivial = operands of different representation or beyond '
        '2^31; distinct = distinct (lhs,rhs) texts')
PARAMS = {'quick': {'n': 5000}, 'thorough': {'n': 120000}}
MIN_EVAL = {'quick': 100000, 'thorough': 2000000}
STRATA = ['int-int', 'int-big', 'big-big', 'boxed-small', 'int-rat', 'rat-rat', 'int-float', 'big-float', 'rat-float',
          'float-float', 'beyond-53-bits', 'zeroes', 'overflow-promotion']
ASSUMPTIONS = ['mixed int/rational vs float comparison converts the exact operand to a double (correctly rounded), as the '
               'statement says; Python int/Fraction/float comparison is the definition',
               'an integer too large for a double compares as +-infinity or raises float_overflow (both accepted)',
               'an outcome that is exactly the reference outcome with the rational promoted to a 1-ulp neighbour is '
               'classified under the known promotion defect K18, anything else is a violation']

OPS = ['<', '=<', '>', '>=', '=:=', '=\\=']
HELPER = """
c04_t(G, R) :- catch((call(G) -> R = true ; R = false), error(E, _), R = E).
"""


def boxed(rng, k):
    B = rng.choice([1 << 60, 1 << 64, 10 ** 30])
    return mkc('+', mkc('-', mkint(B), mkint(B)), mkint(k))


def gen_pair(rng, i):
    r = i % 14
    if r == 0:
        return 'int-int', mkint(rng.randint(-50, 50)), mkint(rng.randint(-50, 50))
    if r == 1:
        a = rng.choice(BOUNDARY_INTS)
        return 'int-big', mkint(a), mkint(a + rng.choice([-1, 0, 1, 2, -2]))
    if r == 2:
        a = rand_int(rng)
        b = rand_int(rng) if rng.random() < 0.5 else a + rng.choice([-1, 0, 1])
        return 'big-big', mkint(a), mkint(b)
    if r == 3:
        k = rng.randint(-5, 5)
        a, b = boxed(rng, k), mkint(k + rng.choice([-1, 0, 0, 1]))
        return 'boxed-small', (a, b)[rng.random() < 0.5], (b, a)[rng.random() < 0.5] if False else b
    if r == 4:
        n = rng.randint(-20, 20)
        q = rng.choice([rand_rat(rng), mkc('rdiv', mkint(n * 7), mkint(7)), mkc('rdiv', mkint(2 * n + 1), mkint(2))])
        return 'int-rat', q, mkint(n)
    if r == 5:
        a, b = rand_rat(rng), rand_rat(rng)
        if rng.random() < 0.3:
            b = a
        return 'rat-rat', a, b
    if r == 6:
        v = rng.randint(-1000, 1000)
        return 'int-float', mkint(v), mkfloat(float(v) + rng.choice([0.0, 0.5, -0.5, 1e-9, 0.0]))
    if r == 7:
        base = rng.choice([1 << 53, 1 << 62, 1 << 63, 1 << 64, (1 << 63) - 1, (1 << 64) - 1, 1 << 55, (1 << 55) - 1, 1 << 100])
        a = base + rng.choice([-2, -1, 0, 1, 2, 1024, -1024])
        f = float(base) if rng.random() < 0.7 else float(a)
        if rng.random() < 0.3:
            f = math.nextafter(f, rng.choice([math.inf, -math.inf]))
        s = rng.choice([1, -1])
        return 'big-float', mkint(s * a), mkfloat(s * f)
    if r == 8:
        q = rand_rat(rng)
        fq = float(Fraction(q[1], q[2]))
        # keep clear of the conversion's last bits unless the rational is exactly a double
        f = rng.choice([fq, math.nextafter(fq, math.inf), math.nextafter(fq, -math.inf), fq * (1 - 1e-12), rand_float(rng)])
        if math.isinf(f):
            f = fq
        return 'rat-float', q, mkfloat(f)
    if r == 9:
        a = rand_float(rng)
        b = rng.choice([a, math.nextafter(a, math.inf), math.nextafter(a, -math.inf), rand_float(rng), -a])
        return 'float-float', mkfloat(a), mkfloat(b)
    if r == 10:
        base = rng.choice([(1 << 53) + 1, (1 << 54) + 2, (1 << 60) + 4, 9007199254740993, (1 << 70) + 1, 10 ** 17 + 1])
        s = rng.choice([1, -1])
        return 'beyond-53-bits', mkint(s * base), mkfloat(float(s * (base - 1)))
    if r == 11:
        z = [mkfloat(0.0), mkfloat(-0.0), mkint(0), boxed(rng, 0), mkc('rdiv', mkint(0), mkint(3))]
        return 'zeroes', rng.choice(z), rng.choice(z)
    if r == 12:
        big = rng.choice([2 ** 1024, -(2 ** 1024), 2 ** 2000, 10 ** 309, 2 ** 1024 - 2 ** 970])
        return 'overflow-promotion', mkint(big), mkfloat(rng.choice([1.0, 1.7976931348623157e308, -1.7976931348623157e308, 0.0]))
    a = rng.choice([mkint(rand_int(rng)), mkfloat(rand_float(rng)), rand_rat(rng)])
    b = rng.choice([mkint(rand_int(rng)), mkfloat(rand_float(rng))])
    kinds = {a[0], b[0]}
    st = 'int-float' if kinds == {'i', 'f'} else ('float-float' if kinds == {'f'} else ('rat-float' if 'r' in kinds and 'f' in kinds else ('int-rat' if 'r' in kinds else 'big-big')))
    if st == 'rat-float':
        return gen_pair(rng, 8)
    return st, a, b


def outcome(c):
    return [c < 0, c <= 0, c > 0, c >= 0, c == 0, c != 0]


def cmp_with(va, vb, conv):
    """comparison where exact operands facing a float are converted with `conv`"""
    if isinstance(va, float) or isinstance(vb, float):
        fa = va if isinstance(va, float) else conv(va)
        fb = vb if isinstance(vb, float) else conv(vb)
        return (fa > fb) - (fa < fb)
    return (va > vb) - (va < vb)


def conv_exact(x):
    """correctly rounded double; a magnitude beyond the double range compares as +-infinity"""
    try:
        return float(x)
    except OverflowError:
        return math.inf if x > 0 else -math.inf


def expected(a, b):
    """(accepted outcome vectors, outcome vectors explained by the K18 promotion error)"""
    va, vb = refnum.eval_num(a), refnum.eval_num(b)
    acc = [outcome(cmp_with(va, vb, conv_exact))]
    alt = []
    overflow = False
    for v, o in ((va, vb), (vb, va)):
        if isinstance(o, float) and not isinstance(v, float):
            try:
                float(v)
            except OverflowError:
                overflow = True
    if overflow:
        # promotion overflows: float_overflow from every predicate is as acceptable as the exact answer
        acc.append([{refnum.FLOAT_OVERFLOW}] * 6)
    if (isinstance(va, Fraction) and isinstance(vb, float)) or (isinstance(vb, Fraction) and isinstance(va, float)):
        for d in (math.inf, -math.inf):
            alt.append(outcome(cmp_with(va, vb, lambda x, d=d: math.nextafter(conv_exact(x), d))))
    return acc, alt


def matches(vec, got):
    for e, g in zip(vec, got):
        if isinstance(e, set):
            if g not in e:
                return False
        elif g is not e:
            return False
    return True


def decode(t):
    if t == ('a', 'true'):
        return True
    if t == ('a', 'false'):
        return False
    return t


def shard(ctx):
    rec = ctx.rec
    rng = ctx.rng
    w = ctx.worker()
    w.use_modules(['lists'], extra_jobs=[{'op': 'load', 'module': 'user', 'text': HELPER}])
    n = ctx.params['n']
    batch = []
    seen = set()
    for i in range(n):
        g = gen_pair(rng, i + ctx.shard * 3)
        st, a, b = g
        if rng.random() < 0.5:
            a, b = b, a
        if any(t[0] == 'f' and not math.isfinite(bits2f(t[1])) for t in (a, b)):
            continue
        ta, tb = to_text(a), to_text(b)
        if (ta, tb) in seen:
            continue
        seen.add((ta, tb))
        try:
            exp = expected(a, b)
        except (Unmodelled, ArithError):
            rec.inconc('unmodelled')
            continue
        batch.append((st, a, b, ta, tb, exp))
        if len(batch) >= 25:
            run_batch(ctx, w, batch)
            batch = []
    if batch:
        run_batch(ctx, w, batch)


def run_batch(ctx, w, batch):
    rec = ctx.rec
    clauses = []
    for j, (_, a, b, ta, tb, _) in enumerate(batch):
        for k, op in enumerate(OPS):
            clauses.append("c04_%d_%d :- '%s'(%s, %s).\n" % (j, k, op.replace('\\', '\\\\'), ta, tb))
    compiled_ok = arith.load_clauses(rec, w, ''.join(clauses))
    for j, (st, a, b, ta, tb, exp) in enumerate(batch):
        goals = {'meta': 'R = [%s], %s' % (','.join('R%d' % k for k in range(6)),
                                          ', '.join("c04_t('%s'(%s,%s), R%d)" % (op.replace('\\', '\\\\'), ta, tb, k) for k, op in enumerate(OPS)))}
        if compiled_ok:
            goals['compiled'] = 'R = [%s], %s' % (','.join('R%d' % k for k in range(6)),
                                                  ', '.join('c04_t(c04_%d_%d, R%d)' % (j, k, k) for k in range(6)))
        nontriv = a[0] != b[0] or a[0] == 'c' or b[0] == 'c' or any(t[0] == 'i' and abs(t[1]) >= 2 ** 31 for t in (a, b)) or a[0] in 'fr'
        for mode, goal in goals.items():
            rec.case(st, (mode, ta, tb), nontrivial=nontriv, n=6)
            obs = arith.run_goal(w, goal, var='R')
            if obs[0] == 'timeout':
                rec.inconc('timeout')
                continue
            rec.info['comparisons_observed'] += 6
            bad = None
            got = None
            if obs[0] != 'val' or obs[1][0] != 'l' or len(obs[1][1]) != 6:
                bad = obs[0] if obs[0] != 'val' else 'garbled'
            else:
                got = [decode(t) for t in obs[1][1]]
                acc, alt = exp
                if not any(matches(v, got) for v in acc):
                    bad = 'rational_promotion_off_by_one_ulp' if any(matches(v, got) for v in alt) else 'wrong_outcome'
                # internal consistency, independent of the reference
                if all(isinstance(g, bool) for g in got):
                    lt, le, gt, ge, eq, ne = got
                    if (lt + eq + gt) != 1 or ne == eq or le != (lt or eq) or ge != (gt or eq):
                        bad = 'inconsistent'
            if bad is None:
                if len(rec.samples) < 5 and j % 9 == 0:
                    rec.sample({'lhs': ta, 'rhs': tb, 'mode': mode, 'observed': dict(zip(OPS, [repr(x) if not isinstance(x, bool) else x for x in got]))})
                continue
            sig = {'kind': bad, 'stratum': st, 'kinds': a[0] + b[0]}
            arith.panic_sig(sig, obs)
            rec.violation(sig, {'lhs': ta, 'rhs': tb, 'mode': mode,
                                'expected': [[(v if isinstance(v, bool) else sorted(show(f) for f in v)) for v in vec] for vec in exp[0]],
                                'observed': arith.show_obs(obs),
                                'jobs': [{'op': 'load', 'module': 'user', 'text': HELPER}, {'op': 'run', 'goal': goals['meta'] + ' .', 'limit': 2}]})
