"""C30 Memory exhaustion at any allocation raises a catchable error.

Oracle: fault injection + reference + process observation.  The verif hook makes the k-th heap
growth attempt fail exactly as if the allocator had returned null (transient failure; in 1 case of 8 every later attempt fails too: persistent exhaustion).  For each workload the
injection point is moved over the allocation sites by leaving r free cells before the query
(r swept over small values) and by choosing k; the injected query is the first query of a fresh
machine.  Expected: the goal ends with a caught error(resource_error(memory), _) (or completes when
the failing growth is never reached); afterwards, with the hook disarmed, a probe battery must give
its reference answers.  A panic or process death is a violation."""
from .. import arith
from ..terms import mkint, mkatom, mklist, mkc, NIL, show
from ..worker import WorkerDied, WorkerTimeout

ID = 'C30'
LEVEL = 'exploration'
RULE = ('12 workloads (long list by length/2, recursion building a structure, copy_term, findall of 10^4 solutions, assertz of a big '
        'term, atom_chars and string append, number_codes of a 3000-digit number, bignum multiplication, read_term_from_chars of a big '
        'term, sort/2, bagof/3, format_//2, construction of an error term with a big culprit); per workload: residual free cells '
        'r in 0..24, 32, 64, 100, 1000, 5000 and k in 1..8 (k = 1 is the growth attempt made while run_query sets the query up); each injection on a fresh machine as its first query; afterwards 8 probe '
        'goals; separate stratum: injection into the 2nd-4th query of a machine. distinct = distinct (workload, r, k); non-trivial = '
        'injection reached (a growth attempt was failed)')
PARAMS = {'quick': {'rs': [0, 1, 2, 3, 5, 8, 13, 21, 64, 1000], 'ks': [1, 2, 3, 4]}, 'thorough': {'rs': list(range(0, 25)) + [32, 64, 100, 1000, 5000], 'ks': [1, 2, 3, 4, 5, 6, 8]}}
MIN_EVAL = {'quick': 1500, 'thorough': 8000}
STRATA = ['persistent-exhaustion', 'injected-first-query', 'injected-query-setup', 'later-query', 'probes-after-fault']
ASSUMPTIONS = ['only heap growth is failed (the property is about the term heap); Vec/arena allocation failure aborts by Rust semantics',
               'a workload that completes before the k-th growth is counted as not reached, not as held']

LIBS = ':- use_module(library(lists)).\n:- use_module(library(charsio)).\n:- use_module(library(format)).\n:- use_module(library(dcgs)).\n:- use_module(library(between)).\n'
PROGRAM = r"""
c30_build(0, z) :- !.
c30_build(N, f(N, T)) :- N1 is N - 1, c30_build(N1, T).
c30_digits(0, []) :- !.
c30_digits(N, [0'7|T]) :- N1 is N - 1, c30_digits(N1, T).
:- dynamic(c30_store/1).
c30_p(1, a). c30_p(2, b). c30_p(1, c). c30_p(3, d). c30_p(2, e).
"""

WORKLOADS = [
    ('long-list', 'lists:length(L, 400000)'),
    ('build-structure', 'c30_build(200000, _)'),
    ('copy_term', 'lists:length(L, 150000), copy_term(L, _)'),
    ('findall', 'findall(X-f(X), between:between(1, 60000, X), _)'),
    ('assertz-big', 'lists:length(L, 150000), assertz(c30_store(L))'),
    ('atom-chars-append', 'lists:length(L, 120000), lists:maplist(=(x), L), atom_chars(A, L), atom_chars(A, L2), lists:append(L2, L2, _)'),
    ('number_codes', 'c30_digits(100000, Ds), number_codes(N, Ds), number_codes(N, _)'),
    ('bignum', 'X is 7 ** 200000, Y is X * X, Y > 0, lists:length(_, 300000)'),
    ('read-big-term', 'lists:length(L, 60000), lists:maplist(=(a), L), charsio:write_term_to_chars(L, [], Cs), lists:append(Cs, " .", Cs1), charsio:read_term_from_chars(Cs1, _, [])'),
    ('sort', 'between:numlist(1, 150000, L), lists:reverse(L, R), sort(R, _)'),
    ('bagof', 'between:numlist(1, 60000, L), bagof(X-Y, ( lists:member(X, L), c30_p(_, Y), Y == a ), _)'),
    ('format', 'between:numlist(1, 40000, L), dcgs:phrase(format:format_("~w~n~q", [L, L]), _)'),
    ('error-culprit', 'lists:length(L, 300000), atom_length(L, _)'),
]
PROBES = [('X is 2 ^ 70 + 1', mkint(2 ** 70 + 1)), ('lists:append([a], [b], X)', mklist([mkatom('a'), mkatom('b')])), ('atom_length(hello, X)', mkint(5)),
          ('findall(Y, lists:member(Y, [c, b, a]), X)', mklist([mkatom('c'), mkatom('b'), mkatom('a')])), ('sort([b, a, c, a], X)', mklist([mkatom('a'), mkatom('b'), mkatom('c')])),
          ('assertz(c30_store(probe)), retract(c30_store(probe)), X = ok', mkatom('ok')), ('atom_chars(X, "abc")', mkatom('abc')),
          ('catch(atom_length(_, _), error(E, _), true), X = E', mkatom('instantiation_error'))]


def fresh(w):
    w.job({'op': 'new'})
    w.job({'op': 'load', 'module': 'user', 'text': LIBS + PROGRAM})


def shard(ctx):
    rec = ctx.rec
    rng = ctx.rng
    w = ctx.worker()
    cases = [(wn, wg, r, k) for wn, wg in WORKLOADS for r in ctx.params['rs'] for k in ctx.params['ks']]
    base_jobs = [{'op': 'new'}, {'op': 'load', 'module': 'user', 'text': LIBS + PROGRAM}]
    for idx, (wn, wg, r, k) in enumerate(cases):
        if idx % ctx.nshards != ctx.shard:
            continue
        later = (idx // ctx.nshards) % 9 == 8       # every 9th case of a shard injects into a later query
        sticky = False
        goal = '( catch(( %s ), E, true) -> ( var(E) -> R = completed ; R = caught(E) ) ; R = failed )' % wg
        jobs = list(base_jobs)
        try:
            fresh(w)
            if later:
                for _ in range(rng.randint(1, 3)):
                    w.run('lists:length(L0, 1000), X0 = done', only_r=False)
                    jobs.append({'op': 'run', 'goal': 'lists:length(L0, 1000), X0 = done .', 'limit': 2})
            lf = w.job({'op': 'leave_free', 'r': r})
            sticky = (idx // ctx.nshards) % 8 == 3
            w.job({'op': 'arm_alloc', 'k': k, 'sticky': sticky})
            jobs += [{'op': 'leave_free', 'r': r}, {'op': 'arm_alloc', 'k': k, 'sticky': sticky}, {'op': 'run', 'goal': goal + ' .', 'limit': 2, 'pred': 'runr'}]
            res = w.run(goal, limit=5, timeout=120, only_r=True)
            o = arith.observe(res, 'R')
            raw = res.rep.get('raw') or []
            if o[0] == 'other' and raw and raw[0].get('k') == 'exception':
                # the failure hit the harness's own code around the goal: the query ended with an exception answer
                t = raw[0].get('t', {})
                ball_ok = t.get('c') == 'error' and t.get('args') and t['args'][0].get('c') == 'resource_error'
                o = ('outside', 'resource_error' if ball_ok else 'garbage_ball: ' + str(t)[:200])
            cnt = w.job({'op': 'counters'}) if o[0] not in ('died', 'timeout') else {}
            w.job({'op': 'arm_alloc', 'k': 0}) if o[0] not in ('died', 'timeout') else None
        except (WorkerDied, WorkerTimeout) as e:
            o = ('died', {'status': getattr(e, 'status', 'timeout')})
            cnt = {}
        reached = cnt.get('growth_failed', 0) >= 1
        st = 'later-query' if later else (('injected-query-setup' if k == 1 else 'injected-first-query') if reached or o[0] == 'panic' else 'not-reached')
        rec.case(st, (wn, r, k, later), nontrivial=reached)
        if sticky:
            rec.case('persistent-exhaustion', (wn, r, k, 's'))
        rec.info['growth_attempts_seen'] += cnt.get('growth_attempts', 0)
        if reached:
            rec.sets['injected_points'].add('%s r=%d k=%d' % (wn, r, k))
        why = None
        if o[0] in ('panic', 'died'):
            why = 'process_' + o[0]
        elif o[0] == 'timeout':
            rec.inconc('timeout')
            continue
        elif o[0] == 'val':
            t = o[1]
            if reached:
                ok = t[0] == 'c' and t[1] == 'caught' and t[2][0][0] == 'c' and t[2][0][1] == 'error' and t[2][0][2][0] == mkc('resource_error', mkatom('memory'))
                if t == mkatom('completed') and not sticky:
                    rec.info['completed_after_a_failed_attempt_was_retried'] += 1      # a transient failure may be survived by retrying
                elif not ok:
                    why = 'injected_fault_not_reported_as_resource_error'
            elif t != mkatom('completed'):
                # the culprit workload legitimately ends with a type error
                if not (wn == 'error-culprit' and t[0] == 'c' and t[1] == 'caught'):
                    why = 'workload_did_not_complete_without_fault'
        elif o[0] == 'err' and o[1][0] == 'c' and o[1][1] == 'resource_error' and reached:
            rec.info['delivered_outside_goal'] += 1      # the failure hit the harness's own code around the goal and was reported properly
        elif o[0] == 'outside':
            rec.info['delivered_outside_goal'] += 1
            if o[1] != 'resource_error':
                why = 'fault_outside_goal_delivered_as_garbage_ball'
        else:
            why = 'goal_' + o[0]
        if why is None and o[0] == 'val':
            # probes with the hook disarmed
            for pg, want in PROBES:
                po = arith.run_goal(w, pg, var='X', timeout=30)
                rec.case('probes-after-fault', (wn, r, k, pg))
                if po != ('val', want):
                    why = 'probe_after_fault_wrong'
                    jobs.append({'op': 'arm_alloc', 'k': 0})
                    jobs.append({'op': 'run', 'goal': pg + ' .', 'limit': 2})
                    o = po
                    break
        if why is None:
            if len(rec.samples) < 6 and reached and idx % 29 == 0:
                rec.sample({'workload': wn, 'r': r, 'k': k, 'outcome': arith.show_obs(o)[:120], 'growth_attempts': cnt.get('growth_attempts')})
            continue
        sig = {'kind': why, 'workload': wn, 'later_query': later, 'persistent': sticky, 'stage': 'query-setup' if k == 1 or o[0] == 'outside' else 'goal'}
        arith.panic_sig(sig, o)
        rec.violation(sig, {'goal': goal, 'r': r, 'k': k, 'counters': cnt, 'observed': arith.show_obs(o)[:400], 'jobs': jobs})
