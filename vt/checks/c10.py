"""C10 Unification computes most general unifiers.

Oracle: reference rational-tree unification (Python) next to the engine: success/failure,
the instantiated terms (variant of the reference mgu applied to f(X,Y,OutsideVars)), X == Y
afterwards, and the occurs-check variants."""
from .. import refterm, arith
from ..refterm import Cyclic
from ..terms import (mkint, mkfloat, mkc, mkatom, mklist, mkvar, mkstr, NIL, to_text, to_text_varied, show, rename_canonical, term_vars)
from ..gen import rand_term, rand_int

ID = 'C10'
LEVEL = 'exploration'
RULE = ('pairs of terms (size <= 25) over a shared pool of 0-6 variables, atoms, integers (literal and boxed through bignum '
        'arithmetic), bignums, rationals, floats, strings vs explicit char lists vs partial lists, structures; derived pairs '
        '(a term and a mutated copy, a term and a variant, would-be-cyclic pairs X = f(X), already-bound aliases); for each pair: '
        'X = Y outcome and resulting instantiation of f(X,Y,Vars) vs the reference mgu, X == Y afterwards, bindings undone on '
        'failure, unify_with_occurs_check/2, and = under occurs_check=true/error. distinct = distinct pair texts; '
        'non-trivial = the pair contains a variable or a compound')
PARAMS = {'quick': {'n': 6000}, 'thorough': {'n': 250000}}
MIN_EVAL = {'quick': 100000, 'thorough': 4000000}
STRATA = ['random', 'mutated-copy', 'variant', 'would-be-cyclic', 'string-mix', 'number-kinds', 'aliased', 'occurs-flag']
ASSUMPTIONS = ['the reference is textbook rational-tree unification; most generality is checked as variant-equality of the '
               'instantiated f(X,Y,Vars) with the reference mgu applied to it',
               'attributed variables are excluded (C26)']

ATOMS = ['a', 'b', 'c', 'foo', '[]']


def tm(rng, depth, nv):
    return rand_term(rng, depth, nv, strings=True, floats=True, atoms=ATOMS)


def mutate(rng, t, nv):
    """replaces one random subterm"""
    k = t[0]
    if k == 'c' and rng.random() < 0.7:
        i = rng.randrange(len(t[2]))
        args = list(t[2])
        args[i] = mutate(rng, args[i], nv)
        return ('c', t[1], tuple(args))
    if k == 'l' and rng.random() < 0.7:
        i = rng.randrange(len(t[1]) + 1)
        if i == len(t[1]):
            return mklist(t[1], mutate(rng, t[2], nv))
        items = list(t[1])
        items[i] = mutate(rng, items[i], nv)
        return mklist(items, t[2])
    return rng.choice([mkvar(rng.randrange(max(nv, 1))), tm(rng, 1, nv), mkatom('zz'), mkint(99)])


def gen_pair(rng, i):
    nv = rng.randint(0, 6)
    r = i % 8
    if r == 0:
        return 'random', tm(rng, 3, nv), tm(rng, 3, nv)
    if r == 1:
        a = tm(rng, 3, nv)
        return 'mutated-copy', a, mutate(rng, a, nv)
    if r == 2:
        a = tm(rng, 3, max(nv, 1))
        vs = term_vars(a)
        m = {v: mkvar(10 + j) for j, v in enumerate(vs)}
        from ..terms import subst
        return 'variant', a, subst(a, m)
    if r == 3:
        v = mkvar(0)
        t = rng.choice([mkc('f', v), mkc('f', mkatom('a'), v), mklist([mkatom('a')], v), mkc('g', mkc('f', v, mkvar(1))),
                        mklist([v, mkint(1)]), mkc('f', mkvar(1), v)])
        if rng.random() < 0.5:
            return 'would-be-cyclic', v, t
        # indirect: f(X,Y) = f(g(Y), g(X))
        return 'would-be-cyclic', mkc('f', mkvar(0), mkvar(1)), mkc('f', mkc('g', mkvar(1)), rng.choice([mkc('g', mkvar(0)), mkvar(2), mkatom('a')]))
    if r == 4:
        s = rng.choice(['', 'a', 'ab', 'abc', 'abcdefgh', 'abcdefghi', 'héllo'])
        a = mkstr(s)
        k = rng.randint(0, len(s))
        b = rng.choice([mkstr(s), mklist([mkatom(c) for c in s[:k]], mkvar(0)), mklist([mkatom(c) for c in s[:k]] + [mkvar(1)], mkvar(0)),
                        mkstr(s[:k] + 'x' + s[k + 1:]), mklist([mkvar(j) for j in range(len(s))]), mkstr(s + 'z')])
        return 'string-mix', a, b
    if r == 5:
        n = rng.choice([0, 1, -1, 5, 2 ** 55, -(2 ** 55), 2 ** 64, 10 ** 20, 2 ** 31])
        a = rng.choice([mkint(n), mkfloat(float(n)) if abs(n) < 2 ** 53 else mkint(n), ('r', 1, 3), ('r', 2 * n + 1, 2)])
        b = rng.choice([mkint(n), mkint(n + 1), mkfloat(1.5), ('r', 1, 3), mkvar(0), mkc('f', mkint(n))])
        return 'number-kinds', mkc('p', a, mkvar(0)), mkc('p', b, mkint(n))
    if r == 6:
        a = mkc('f', mkvar(0), mkvar(1), mkvar(0))
        b = mkc('f', mkvar(1), rng.choice([mkvar(2), mkatom('a'), mkc('g', mkvar(2))]), rng.choice([mkvar(2), mkatom('a'), mkatom('b'), mkc('g', mkint(1))]))
        return 'aliased', a, b
    return 'random', tm(rng, 2, nv), tm(rng, 2, nv)


def shard(ctx):
    rec = ctx.rec
    rng = ctx.rng
    w = ctx.worker()
    w.use_modules(['lists'])
    n = ctx.params['n']
    seen = set()
    for i in range(n):
        st, a, b = gen_pair(rng, i + ctx.shard)
        pre = []
        ta = to_text_varied(a, rng, pre)
        tb = to_text_varied(b, rng, pre)
        key = (ta, tb, tuple(pre))
        if key in seen:
            continue
        seen.add(key)
        vs = sorted(set(term_vars(a)) | set(term_vars(b)), key=lambda v: v[1])
        tv = '[%s]' % ','.join(to_text(v) for v in vs)
        s = {}
        ok = refterm.unify(a, b, s)
        finite = False
        resolved = None
        if ok:
            try:
                resolved = refterm.resolve(mkc('f', a, b, mklist(vs)), s)
                finite = True
            except Cyclic:
                finite = False
        nontriv = bool(vs) or a[0] in 'cl' or b[0] in 'cl'
        prefix = ''.join(p + ', ' for p in pre)
        # 1. plain unification
        rec.case(st, key, nontrivial=nontriv)
        if ok and not finite:
            goal = '%sX = %s, Y = %s, ( X = Y -> ( X == Y -> R = yes_identical ; R = yes_not_identical ) ; R = no )' % (prefix, ta, tb)
            want = ('a', 'yes_identical')
        else:
            goal = '%sX = %s, Y = %s, T = f(X, Y, %s), ( X = Y -> ( X == Y -> R = yes(T) ; R = not_identical(T) ) ; R = no(T) )' % (prefix, ta, tb, tv)
            want = ('c', 'yes', (resolved,)) if ok else ('c', 'no', (mkc('f', a, b, mklist(vs)),))
        o = arith.run_goal(w, goal, var='R', timeout=20)
        rec.info['unifications_observed'] += 1
        judge(rec, st, 'unify', goal, o, want)
        # 2. unify_with_occurs_check
        goal2 = '%sX = %s, Y = %s, ( unify_with_occurs_check(X, Y) -> R = yes ; R = no )' % (prefix, ta, tb)
        o2 = arith.run_goal(w, goal2, var='R', timeout=20)
        rec.case(st, None, nontrivial=False)
        rec.info['unifications_observed'] += 1
        judge(rec, st, 'unify_with_occurs_check', goal2, o2, ('a', 'yes' if finite else 'no'))
        # 3. occurs_check flag (a sample: flag changes are global state)
        if i % 5 == 0:
            for flag, want3 in (('true', ('a', 'yes' if finite else 'no')),
                                ('error', ('a', 'yes') if finite else (('a', 'no') if not ok else 'error'))):
                goal3 = ('%sX = %s, Y = %s, set_prolog_flag(occurs_check, %s), '
                         'catch(( X = Y -> R = yes ; R = no ), error(E, _), R = raised(E)), set_prolog_flag(occurs_check, false)' % (prefix, ta, tb, flag))
                o3 = arith.run_goal(w, goal3, var='R', timeout=20)
                rec.case('occurs-flag', None, nontrivial=False)
                rec.info['unifications_observed'] += 1
                if flag == 'error' and not ok:
                    # not unifiable at all: failing, or reporting a cyclic binding met on the way, are both fine
                    if not (o3[0] == 'val' and (o3[1] == ('a', 'no') or (o3[1][0] == 'c' and o3[1][1] == 'raised'))):
                        report(rec, st, 'flag-error', goal3, o3, 'no | raised(<error>)')
                elif want3 == 'error':
                    if not (o3[0] == 'val' and o3[1][0] == 'c' and o3[1][1] == 'raised'):
                        report(rec, st, 'flag-error', goal3, o3, 'raised(<error>)')
                else:
                    judge(rec, st, 'flag-' + flag, goal3, o3, want3)
                if o3[0] != 'val':
                    # make sure the flag is back to its default for the next case
                    arith.run_goal(w, 'set_prolog_flag(occurs_check, false)')


def judge(rec, st, what, goal, o, want):
    if o[0] == 'timeout':
        rec.inconc('timeout')
        return
    if o[0] == 'val' and rename_canonical(o[1]) == rename_canonical(want):
        if len(rec.samples) < 5 and what == 'unify' and st in ('aliased', 'would-be-cyclic', 'string-mix'):
            rec.sample({'goal': goal, 'observed': show(o[1])})
        return
    report(rec, st, what, goal, o, show(want))


def report(rec, st, what, goal, o, want_text):
    sig = {'kind': 'wrong_' + what, 'stratum': st}
    if o[0] == 'val' and o[1][0] in 'ca':
        sig['got'] = o[1][1] if o[1][0] == 'c' else o[1][1]
    arith.panic_sig(sig, o)
    rec.violation(sig, {'goal': goal, 'expected': want_text, 'observed': arith.show_obs(o),
                        'jobs': [{'op': 'run', 'goal': goal + ' .', 'limit': 2}]})
