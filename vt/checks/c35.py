"""C35 Reloading a program is idempotent.

Oracle: metamorphic + invariant at a hook.  A random program text (static, dynamic,
discontiguous and multifile predicates, operator declarations) is loaded, queried, and loaded
again 2-4 more times (load_module_string or consult_module_string).  After every reload the answers
of all queries must equal those after the first load, and the machine footprint read through the
verif hook (heap cells, atom table entries, stack top, trail length, loader contexts, inactive load
states) must equal the footprint after the first load."""
from .. import arith, progen, miniprolog as mp
from ..terms import mkint, mkatom, mklist, mkc, NIL, show, to_text, rename_canonical
from . import c07

ID = 'C35'
LEVEL = 'exploration'
RULE = ('programs from the C07 generator (cut-free and with cuts) extended with a dynamic predicate with facts, a discontiguous predicate '
        'whose clauses are interleaved with others, a multifile predicate, and an operator declaration that the program text itself '
        'uses; loaded 3-5 times through load_module_string or consult_module_string; 6 queries after every load; footprint after every '
        'load. distinct = distinct (program, load number); non-trivial = reload number >= 2')
PARAMS = {'quick': {'n': 40}, 'thorough': {'n': 2500}}
MIN_EVAL = {'quick': 6000, 'thorough': 300000}
STRATA = ['load', 'consult', 'answers-after-reload', 'footprint-after-reload', 'with-dynamic', 'with-operator']
ASSUMPTIONS = ['the code area may grow on reload (it is append-only by design); the property names heap, atom table, stack, trail and loader state',
               'atom table entries are compared from the second load on against the value after the second load as well, because fresh '
               'query texts of the harness may intern atoms']

FIELDS = ['heap_cells', 'stack_top', 'trail_len', 'tr', 'load_contexts', 'inactive_load_states', 'atom_table_entries', 'b', 'e', 'block']


def shard(ctx):
    rec = ctx.rec
    rng = ctx.rng
    w = ctx.worker()
    setup_q = 'use_module(library(lists)).'
    for i in range(ctx.params['n']):
        mode = 'consult' if i % 2 else 'load'
        w.job({'op': 'new'})
        w.setup([{'op': 'raw', 'query': setup_q}])
        prog, sigs = progen.rprogram(rng, cuts=rng.random() < 0.5, lib=True)
        prefix = 'c35_%d_%d_' % (ctx.shard, i)
        base = c07.program_text(prog, prefix)
        extra = (':- dynamic(%sd/1).\n%sd(1).\n%sd(two).\n:- discontiguous(%sdc/1).\n%sdc(a).\n%sx(1).\n%sdc(b).\n:- multifile(%sm/1).\n%sm(1).\n'
                 ':- op(700, xfx, ===>).\n%so(a ===> b).\n%so(X ===> Y) :- %sd(X), %sd(Y).\n') % ((prefix,) * 13)
        text = base + extra
        name_of = lambda n: prefix + n
        qs = [(mp.body_text(g, name_of, to_text), to_text(t)) for g, t in progen.rqueries(rng, sigs, 4)]
        qs += [('%sd(X)' % prefix, 'X'), ('%sdc(X)' % prefix, 'X'), ('%so(X ===> Y)' % prefix, 'X-Y'), ('%sm(X)' % prefix, 'X')]
        jobs = [{'op': 'new'}, {'op': 'raw', 'query': setup_q}]
        first_answers, first_fp, second_fp = None, None, None
        loads = rng.randint(3, 5)
        bad = False
        for ln in range(1, loads + 1):
            try:
                rep = w.job({'op': mode, 'module': 'user', 'text': text}, timeout=120)
            except Exception as e:
                rec.violation({'kind': 'worker_' + type(e).__name__ + '_at_load', 'mode': mode, 'load_number': min(ln, 2)}, {'program': text, 'jobs': jobs})
                bad = True
                break
            jobs.append({'op': mode, 'module': 'user', 'text': text})
            if rep.get('panic'):
                rec.violation({'kind': 'panic_at_load', 'mode': mode, 'load_number': min(ln, 2), 'file': rep['panic'].get('file', '').replace('/repo/', ''), 'line': rep['panic'].get('line')},
                              {'program': text, 'observed': rep['panic'], 'jobs': jobs})
                bad = True
                break
            fp = w.job({'op': 'footprint'}).get('fp', {})
            answers = []
            for g, t in qs:
                o = arith.run_goal(w, 'findall(%s, ( %s ), R)' % (t, g), var='R', timeout=30)
                answers.append(o if o[0] != 'val' else ('val', rename_canonical(o[1])))
            rec.case(mode, (text, ln), nontrivial=ln >= 2)
            rec.case('with-dynamic', (text, ln, 'd'))
            rec.case('with-operator', (text, ln, 'o'))
            if ln == 1:
                first_answers, first_fp = answers, fp
                continue
            rec.case('answers-after-reload', (text, ln, 'a'))
            rec.case('footprint-after-reload', (text, ln, 'f'))
            if answers != first_answers:
                k = next(j for j in range(len(qs)) if answers[j] != first_answers[j])
                rec.violation({'kind': 'answers_changed_by_reload', 'mode': mode, 'query_kind': 'generated' if k < 4 else ['dynamic', 'discontiguous', 'operator', 'multifile'][k - 4]},
                              {'program': text, 'query': qs[k][0], 'first': arith.show_obs(first_answers[k])[:300], 'after_reload_%d' % ln: arith.show_obs(answers[k])[:300], 'jobs': jobs})
                bad = True
                break
            ref = first_fp
            diffs = {f: (ref.get(f), fp.get(f)) for f in FIELDS if f != 'atom_table_entries' and ref.get(f) != fp.get(f)}
            if ln == 2:
                second_fp = fp
            elif second_fp is not None and fp.get('atom_table_entries') != second_fp.get('atom_table_entries'):
                diffs['atom_table_entries'] = (second_fp.get('atom_table_entries'), fp.get('atom_table_entries'))
            if diffs:
                rec.violation({'kind': 'footprint_changed_by_reload', 'mode': mode, 'fields': '+'.join(sorted(diffs))},
                              {'program': text, 'load_number': ln, 'differences (first load, now)': diffs, 'jobs': jobs + [{'op': 'footprint'}]})
                if set(diffs) != {'inactive_load_states'}:
                    bad = True
                    break
                first_fp = dict(first_fp, inactive_load_states=fp.get('inactive_load_states'))      # keep checking the other fields on later loads
        if not bad and len(rec.samples) < 4 and i % 7 == 0:
            rec.sample({'mode': mode, 'loads': loads, 'footprint_after_first_load': {f: first_fp.get(f) for f in FIELDS} if first_fp else None})
