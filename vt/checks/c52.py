"""C52 Random number predicates are in range and reproducible.

Oracle: range/type invariants on every sample, endpoint reachability on tiny ranges, failure
on empty ranges, documented errors, and reproducibility (same seed => same sequence, on the
same machine after re-seeding and on a fresh machine)."""
from .. import arith
from ..terms import mkint, mkatom, mklist, NIL, bits2f, show
from ..gen import BOUNDARY_INTS

ID = 'C52'
LEVEL = 'exploration'
RULE = ('random/1: batches of 200 samples (float, 0 =< X < 1); random_integer/3 with bounds from small integers, negative '
        'ranges, values around 2^55/2^63/2^64, bignum ranges (-2^70..2^70, 2^64..2^64+1), integers boxed through bignum '
        'arithmetic: 100-400 samples per range, each must be an integer with L =< X < H, both endpoints L and H-1 must occur for '
        'ranges of width <= 3; empty ranges (L >= H) must fail; unbound / non-integer bounds must raise the documented errors; '
        'set_random(seed(S)) with integer seeds of every size: the sequence of 30 mixed calls must repeat after re-seeding on the '
        'same machine and on a fresh machine. distinct = distinct (bounds | seed); non-trivial = all')
PARAMS = {'quick': {'n': 40}, 'thorough': {'n': 2500}}
MIN_EVAL = {'quick': 50000, 'thorough': 3000000}
STRATA = ['random/1', 'range-small', 'range-tiny-endpoints', 'range-big', 'range-empty', 'errors', 'reseed-same-machine', 'reseed-fresh-machine']
ASSUMPTIONS = ['no distributional claim beyond endpoint reachability (probability of a false alarm < 2^-150 per tiny range)']

SEQ = 'findall(X, ( between(1, 10, _), ( random(X) ; random_integer(0, 1000000, X) ; random_integer(-1180591620717411303424, 1180591620717411303424, X) ) ), R)'


def shard(ctx):
    rec = ctx.rec
    rng = ctx.rng
    w = ctx.worker()
    mods = ['lists', 'between', 'random']
    w.use_modules(mods)
    n = ctx.params['n']
    for i in range(n):
        k = i % 8
        if k == 0:
            o = arith.run_goal(w, 'findall(X, ( between(1, 200, _), random(X) ), R)', var='R')
            rec.case('random/1', ('r1', ctx.shard, i), n=200)
            xs = items(o)
            if xs is None or len(xs) != 200 or not all(x[0] == 'f' and 0.0 <= bits2f(x[1]) < 1.0 for x in xs):
                viol(rec, 'random_out_of_range_or_type', 'random/1', o)
            elif len(set(xs)) < 150:
                viol(rec, 'random_values_repeat', 'random/1', o)
            continue
        if k in (1, 2, 3):
            if k == 1:
                lo = rng.randint(-50, 50)
                hi = lo + rng.randint(4, 100)
                st = 'range-small'
            elif k == 2:
                lo = rng.choice([0, -1, 5, 2 ** 55 - 1, 2 ** 64, -(2 ** 64), 2 ** 63 - 1, -(2 ** 55) - 1])
                hi = lo + rng.randint(1, 3)
                st = 'range-tiny-endpoints'
            else:
                lo, hi = rng.choice([(-(2 ** 70), 2 ** 70), (2 ** 64, 2 ** 64 + 1000), (2 ** 55 - 10, 2 ** 55 + 10), (-(2 ** 63) - 5, -(2 ** 63) + 5),
                                     (0, 2 ** 64), (0, 2 ** 200), (-(10 ** 30), 7), (2 ** 62, 2 ** 63 + 1)])
                st = 'range-big'
            cnt = 400 if st == 'range-tiny-endpoints' else 150
            boxed = rng.random() < 0.3
            pre = ''
            lt, ht = lit(lo), lit(hi)
            if boxed:
                pre = 'L0 is 1152921504606846976 - 1152921504606846976 + %s, H0 is 18446744073709551616 + %s - 18446744073709551616, ' % (lt, ht)
                lt, ht = 'L0', 'H0'
            goal = '%sfindall(X, ( between(1, %d, _), random_integer(%s, %s, X) ), R)' % (pre, cnt, lt, ht)
            o = arith.run_goal(w, goal, var='R', timeout=60)
            rec.case(st, (lo, hi, boxed), n=cnt)
            xs = items(o)
            if xs is None or len(xs) != cnt or not all(x[0] == 'i' and lo <= x[1] < hi for x in xs):
                viol(rec, 'random_integer_out_of_range_or_type', st, o, goal)
            elif st == 'range-tiny-endpoints' and ({lo, hi - 1} - {x[1] for x in xs}):
                viol(rec, 'endpoint_never_returned', st, o, goal)
            elif st == 'range-big' and len({x[1] for x in xs}) < 10:
                viol(rec, 'big_range_collapses', st, o, goal)
            elif len(rec.samples) < 4:
                rec.sample({'goal': goal, 'first_values': [x[1] for x in xs[:5]]})
            continue
        if k == 4:
            lo = rng.choice([0, 5, -3, 2 ** 64, 2 ** 55])
            hi = lo - rng.randint(0, 3)
            goal = '( random_integer(%s, %s, X) -> R = got(X) ; R = failed )' % (lit(lo), lit(hi))
            o = arith.run_goal(w, goal, var='R')
            rec.case('range-empty', (lo, hi))
            if o != ('val', mkatom('failed')):
                viol(rec, 'empty_range_does_not_fail', 'range-empty', o, goal)
            continue
        if k == 5:
            goal, exp = rng.choice([('random_integer(_, 3, R)', 'instantiation_error'), ('random_integer(1, _, R)', 'instantiation_error'),
                                    ('random_integer(a, 3, R)', 'type_error'), ('random_integer(1, 2.5, R)', 'type_error'),
                                    ('random_integer(1.0, 3, R)', 'type_error'), ('set_random(seed(_)), R = x', 'instantiation_error'),
                                    ('set_random(seed(foo)), R = x', 'type_error')])
            o = arith.run_goal(w, goal, var='R')
            rec.case('errors', goal)
            if not (o[0] == 'err' and o[1][0] in 'ca' and o[1][1] == exp):
                viol(rec, 'wrong_or_missing_error', 'errors', o, goal)
            continue
        seed = rng.choice([0, 1, 42, -7, 2 ** 31, 2 ** 55, 2 ** 64 + 3, 10 ** 30, rng.randint(0, 10 ** 9)])
        g = 'set_random(seed(%s)), %s' % (lit(seed), SEQ)
        o1 = arith.run_goal(w, g, var='R', timeout=60)
        if k == 6:
            o2 = arith.run_goal(w, g, var='R', timeout=60)
            st = 'reseed-same-machine'
        else:
            w.job({'op': 'new'})
            w.use_modules(mods)
            o2 = arith.run_goal(w, g, var='R', timeout=60)
            st = 'reseed-fresh-machine'
        rec.case(st, seed, n=60)
        x1, x2 = items(o1), items(o2)
        if x1 is None or x2 is None or len(x1) != 30 or x1 != x2:
            viol(rec, 'sequence_not_reproducible', st, o2, g, {'first_run': arith.show_obs(o1)[:300]})
        elif len(set(x1)) < 20:
            viol(rec, 'sequence_degenerate', st, o1, g)


def lit(n):
    return str(n) if n >= 0 else '(%d)' % n


def items(o):
    if o[0] != 'val':
        return None
    if o[1] == NIL:
        return []
    if o[1][0] == 'l' and o[1][2] == NIL:
        return list(o[1][1])
    return None


def viol(rec, kind, st, o, goal=None, extra=None):
    sig = {'kind': kind, 'stratum': st}
    arith.panic_sig(sig, o)
    wit = {'goal': goal, 'observed': arith.show_obs(o)[:600]}
    if extra:
        wit.update(extra)
    if goal:
        wit['jobs'] = [{'op': 'raw', 'query': 'use_module(library(lists)), use_module(library(between)), use_module(library(random)).'},
                       {'op': 'run', 'goal': goal + ' .', 'limit': 2, 'pred': 'runr'}]
    rec.violation(sig, wit)
