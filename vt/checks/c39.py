"""C39 DCG translation preserves grammar semantics.

Oracle: reference recognizer.  Random layered grammars are written as DCG rules for the machine and,
independently, translated by the check into plain clauses with two extra arguments following the DCG
draft standard (terminals, non-terminals with arguments, {}//1, !, alternatives, if-then-else, \\+,
call//N, pushback); the translated program runs on the reference interpreter (vt/miniprolog.py).  For
every input list the answers of phrase/3 (argument bindings and remainders, in order) and of phrase/2
must equal the reference."""
from .. import arith, miniprolog as mp
from ..terms import mkint, mkatom, mklist, mkc, mkvar, NIL, show, to_text, rename_canonical

ID = 'C39'
LEVEL = 'exploration'
RULE = ('grammars of 3 layers (g0 terminal rules, g1 and g2 rules of 1-3 clauses with 1-3 body elements); body elements: terminal lists '
        '[a], [a,b], strings "ab", non-terminals of lower layers with a variable or constant argument, {X = v}, !, ( A | B ), ( A ; B ), '
        '( C -> T ; E ), call(g0, X) (library(dcgs) rejects \\+ in bodies); one pushback rule per grammar; inputs: lists over a b c of length 0-5 (sampled), phrase/3 '
        'with the remainder unbound and phrase/2. distinct = distinct (grammar, input); non-trivial = at least one parse')
PARAMS = {'quick': {'n': 120}, 'thorough': {'n': 8000}}
MIN_EVAL = {'quick': 20000, 'thorough': 1200000}
STRATA = ['terminals', 'non-terminals', 'braces', 'cut', 'alternatives', 'if-then-else', 'call-N', 'pushback', 'phrase2', 'phrase3']
ASSUMPTIONS = ['translation per the DCG draft (ISO/IEC DTR 13211-3): a cut and {}//1 leave the list unchanged, \\+ does not consume, pushback is '
               'appended in front of the remainder']

X, S0, S = mkvar(1), mkvar(90), mkvar(91)
TOK = ['a', 'b', 'c']


class G:
    def __init__(self, rng):
        self.rng = rng
        self.v = 100
        self.feat = set()

    def fresh(self):
        self.v += 1
        return mkvar(self.v)

    def element(self, level, d=0):
        """-> (dcg text, translator(S0, S) -> goal AST)"""
        rng = self.rng
        r = rng.random()
        if r < 0.28 or d >= 2:
            toks = [rng.choice(TOK) for _ in range(rng.randint(1, 2))]
            if toks == ['a', 'b'] and rng.random() < 0.5:
                txt = '"ab"'
            else:
                txt = '[' + ', '.join(toks) + ']'
            self.feat.add('terminals')
            return txt, (lambda a, b, toks=toks: ('unify', a, ('l', tuple(mkatom(t) for t in toks), b)))
        if r < 0.55 and level > 0:
            nt = 'g%d' % rng.randrange(level)
            arg = X if rng.random() < 0.6 else rng.choice([mkint(1), mkint(2), self.fresh()])
            self.feat.add('non-terminals')
            return '%s(%s)' % (nt, vt(arg)), (lambda a, b, nt=nt, arg=arg: ('call', nt, (arg, a, b)))
        if r < 0.65:
            val = rng.choice([mkint(1), mkint(2), mkint(3), mkatom('k')])
            self.feat.add('braces')
            return '{ X = %s }' % to_text(val), (lambda a, b, val=val: ('and', [('unify', X, val), ('unify', a, b)]))
        if r < 0.71:
            self.feat.add('cut')
            return '!', (lambda a, b: ('and', [('cut',), ('unify', a, b)]))
        if r < 0.83:
            (t1, f1), (t2, f2) = self.seq(level, d + 1), self.seq(level, d + 1)
            self.feat.add('alternatives')
            bar = rng.choice(['|', ';'])
            return '( %s %s %s )' % (t1, bar, t2), (lambda a, b: ('or', f1(a, b), f2(a, b)))
        if r < 0.9:
            (tc, fc), (tt, ft), (te, fe) = self.seq(level, d + 1, nocut=True), self.seq(level, d + 1), self.seq(level, d + 1)
            self.feat.add('if-then-else')

            def tr(a, b):
                m = self.fresh()
                return ('ite', fc(a, m), ft(m, b), fe(a, b))
            return '( %s -> %s ; %s )' % (tc, tt, te), tr
        self.feat.add('call-N')
        return 'call(g0, X)', (lambda a, b: ('call', 'g0', (X, a, b)))

    def seq(self, level, d=0, nocut=False):
        k = self.rng.randint(1, 2 if d else 3)
        els = []
        for _ in range(k):
            e = self.element(level, d)
            while nocut and e[0] == '!':
                e = self.element(level, d)
            els.append(e)
        txt = ', '.join(t for t, _ in els)

        def tr(a, b):
            mids = [a] + [self.fresh() for _ in range(len(els) - 1)] + [b]
            goals = [f(mids[i], mids[i + 1]) for i, (_, f) in enumerate(els)]
            return goals[0] if len(goals) == 1 else ('and', goals)
        return txt, tr


def vt(t):
    return 'X' if t == X else to_text(t)


def gen_grammar(rng):
    g = G(rng)
    lines = []
    prog = {}
    # layer 0
    prog[('g0', 3)] = []
    for tok, val in (('a', 1), ('b', 2), ('c', 3)):
        if rng.random() < 0.8:
            lines.append('g0(%d) --> [%s].' % (val, tok))
            prog[('g0', 3)].append(((mkint(val), ('l', (mkatom(tok),), S), S), ('true',)))
    lines.append('g0(9) --> "ab".')
    prog[('g0', 3)].append(((mkint(9), ('l', (mkatom('a'), mkatom('b')), S), S), ('true',)))
    for level in (1, 2):
        name = 'g%d' % level
        prog[(name, 3)] = []
        for _ in range(rng.randint(1, 3)):
            txt, tr = g.seq(level)
            lines.append('%s(X) --> %s.' % (name, txt))
            prog[(name, 3)].append(((X, S0, S), tr(S0, S)))
        if level == 1 and rng.random() < 0.5:
            # pushback
            txt, tr = g.seq(level)
            pb = rng.choice(TOK)
            m = g.fresh()
            lines.append('%s(X), [%s] --> %s.' % (name, pb, txt))
            prog[(name, 3)].append(((X, S0, S), ('and', [tr(S0, m), ('unify', S, ('l', (mkatom(pb),), m))])))
            g.feat.add('pushback')
    return '\n'.join(lines) + '\n', prog, g.feat


def rename_prog(prog, prefix):
    out = {}

    def rb(b):
        k = b[0]
        if k == 'call':
            return ('call', prefix + b[1], b[2])
        if k == 'and':
            return ('and', [rb(x) for x in b[1]])
        if k == 'or':
            return ('or', rb(b[1]), rb(b[2]))
        if k == 'ite':
            return ('ite', rb(b[1]), rb(b[2]), rb(b[3]))
        if k == 'not':
            return ('not', rb(b[1]))
        return b
    for (n, a), cl in prog.items():
        out[(prefix + n, a)] = [(h, rb(b)) for h, b in cl]
    return out


def shard(ctx):
    rec = ctx.rec
    rng = ctx.rng
    w = ctx.worker()
    setup_q = 'use_module(library(lists)), use_module(library(dcgs)).'
    w.setup([{'op': 'raw', 'query': setup_q}])
    for i in range(ctx.params['n']):
        text, prog, feat = gen_grammar(rng)
        prefix = 'c39_%d_%d_' % (ctx.shard, i)
        ptext = text
        for n in ('g0', 'g1', 'g2'):
            ptext = ptext.replace(n + '(', prefix + n + '(').replace('call(%s,' % n, 'call(%s%s,' % (prefix, n))
        if not arith.load_clauses(rec, w, ptext):
            continue
        rprog = rename_prog(prog, prefix)
        for _ in range(14):
            inp = [rng.choice(TOK) for _ in range(rng.choice([0, 1, 2, 2, 3, 3, 4, 5]))]
            inp_t = mklist([mkatom(t) for t in inp])
            top = rng.choice(['g1', 'g2', 'g2'])
            R = mkvar(95)
            for mode in ('phrase3', 'phrase2'):
                m = mp.Machine(rprog, budget=100000)
                try:
                    if mode == 'phrase3':
                        expected = m.answers(('call', prefix + top, (X, inp_t, R)), mkc('-', X, R), limit=200)
                    else:
                        expected = m.answers(('call', prefix + top, (X, inp_t, NIL)), X, limit=200)
                except (mp.Budget, RecursionError):
                    rec.info['model_dropped'] += 1
                    continue
                if len(expected) >= 200:
                    continue
                if mode == 'phrase3':
                    q = 'findall(X-Rest, phrase(%s%s(X), %s, Rest), R)' % (prefix, top, to_text(inp_t))
                else:
                    q = 'findall(X, phrase(%s%s(X), %s), R)' % (prefix, top, to_text(inp_t))
                o = arith.run_goal(w, q, var='R', timeout=30)
                key = (text, tuple(inp), top, mode)
                rec.case(mode, key, nontrivial=bool(expected))
                for f in feat:
                    rec.case(f, key + (f,))
                if o[0] == 'timeout':
                    rec.inconc('timeout')
                    continue
                want = mklist(expected)
                if o[0] == 'val' and rename_canonical(o[1]) == rename_canonical(want):
                    rec.info['parses_compared'] += len(expected)
                    continue
                sig = {'kind': 'parses_differ_from_reference' if o[0] == 'val' else o[0], 'mode': mode, 'features': '+'.join(sorted(feat))[:80]}
                arith.panic_sig(sig, o)
                rec.violation(sig, {'grammar': ptext, 'query': q, 'expected': show(want)[:500], 'observed': arith.show_obs(o)[:500],
                                    'jobs': [{'op': 'raw', 'query': setup_q}, {'op': 'load', 'module': 'user', 'text': ptext}, {'op': 'run', 'goal': q + ' .', 'limit': 2, 'pred': 'runr'}]})
        if len(rec.samples) < 4 and i % 17 == 0:
            rec.sample({'grammar': text[:500], 'features': sorted(feat)})
