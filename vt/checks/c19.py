"""C19 Stream I/O round-trips and reports positions consistently.

Oracle: history + model.  A Python shadow stream (bytes, cursor, newlines consumed, end state,
eof_action, type, reposition) is stepped together with the real stream; every return value and
the position / end_of_stream properties are compared after every operation."""
from .. import arith
from ..terms import mkint, mkatom, mklist, mkstr, mkc, NIL, dq_string, show, to_text, quote_atom, atom_operand

ID = 'C19'
LEVEL = 'exploration'
RULE = ('payloads of 0-40 characters (ASCII, 2/3/4-byte UTF-8, \\n, \\r\\n, NUL-free) or 0-40 bytes (all 256 values) written to a file by '
        'random sequences of put_char/put_code/put_byte/write/nl/format in write and append mode; the file is re-opened with '
        'type(text|binary), eof_action(error|eof_code|reset|default) and reposition(true|false) and driven by histories of 8-40 '
        'operations get_char get_code get_byte peek_char peek_code peek_byte get_n_chars at_end_of_stream read_term '
        'set_stream_position (to an earlier recorded position) and operations of the wrong stream type; after every operation '
        'the result, stream_property position and end_of_stream are compared with the shadow model; payloads that are sequences '
        'of terms are consumed with read_term/3 mixed with character reads. '
        'distinct = distinct (payload, options, operation prefix); non-trivial = all')
PARAMS = {'quick': {'n': 300}, 'thorough': {'n': 20000}}
MIN_EVAL = {'quick': 60000, 'thorough': 4000000}
STRATA = ['large-payload', 'write-readback', 'op-start', 'op-middle', 'op-before-last', 'op-at-end', 'op-past-end', 'peek', 'set_stream_position', 'wrong-type-op',
          'read_term', 'binary', 'eof_action-error', 'eof_action-eof_code', 'eof_action-reset']
ASSUMPTIONS = ['position(position_and_lines_read(P, L)): P = bytes consumed, L = newline characters consumed',
               'end_of_stream is at as soon as the last byte has been consumed (file streams know their length), past after an end-of-file read',
               'eof_action(reset): a read past the end either delivers end-of-file again or restarts the stream at its beginning (both readings accepted)',
               'read_term/3 consumes the term, its end token and one following layout character']

CHARS = ['a', 'b', 'z', ' ', '\n', '\n', 'é', 'ß', '日', '\U0001F600', '0', '.', 'X', '\t', '\r']
SNAP = "( stream_property(c19s, position(P)) -> true ; P = none ), ( stream_property(c19s, end_of_stream(Eos)) -> true ; Eos = none )"


def gen_payload_ops(rng, binary):
    """-> (list of write goals on stream S, bytes)"""
    goals, data = [], b''
    for _ in range(rng.randint(0, 14)):
        r = rng.random()
        if binary:
            b = rng.choice([0, 1, 10, 13, 65, 127, 128, 255, rng.randrange(256)])
            goals.append('put_byte(S, %d)' % b)
            data += bytes([b])
        elif r < 0.3:
            c = rng.choice(CHARS)
            goals.append('put_char(S, %s)' % atom_operand(c))
            data += c.encode()
        elif r < 0.45:
            c = rng.choice(CHARS)
            goals.append('put_code(S, %d)' % ord(c))
            data += c.encode()
        elif r < 0.6:
            goals.append('nl(S)')
            data += b'\n'
        elif r < 0.75:
            a = rng.choice(['foo', 'hello world', '42', 'été', '日本語', 'x'])
            goals.append('write(S, %s)' % quote_atom(a))
            data += a.encode()
        elif r < 0.85:
            n = rng.choice([0, 7, -3, 2 ** 70])
            goals.append('write(S, %d)' % n)
            data += str(n).encode()
        else:
            a = rng.choice(['abc', 'é'])
            n = rng.randint(0, 999)
            goals.append('format(S, "~a=~d~n", [%s, %d])' % (quote_atom(a), n))
            data += ('%s=%d\n' % (a, n)).encode()
    return goals, data


TERMS = ['foo', 'bar(1)', '[a,b]', "'hello world'", 'x-y', '"str"', 'f(X, Y, X)', '42', '- 1', 'a:b:c', '{x}', "'\\n'"]


def gen_term_payload(rng):
    parts = []
    for _ in range(rng.randint(1, 5)):
        parts.append(rng.choice(['', '', '\n', '  ', '\n\n ']) + rng.choice(TERMS) + '.' + rng.choice(['\n', ' ', '\n', '\n']))
    s = ''.join(parts)
    if rng.random() < 0.3:
        s = s.rstrip(' \n')      # last end token directly at end of file
    return s


class Shadow:
    def __init__(self, data, binary, eof_action, reposition):
        self.data, self.binary, self.eof_action, self.reposition = data, binary, eof_action, reposition
        self.pos, self.lines, self.past = 0, 0, False
        self.clean = True      # cursor at a term boundary (no character-level reads since the last read_term)

    def eos(self):
        if self.past:
            return 'past'
        return 'at' if self.pos >= len(self.data) else 'not'

    def next_char(self):
        """-> (char, nbytes) at pos or None at end"""
        if self.pos >= len(self.data):
            return None
        b = self.data[self.pos]
        n = 1 if b < 0x80 else 2 if b < 0xe0 else 3 if b < 0xf0 else 4
        return self.data[self.pos:self.pos + n].decode(), n


def pos_class(sh):
    if sh.past:
        return 'op-past-end'
    rest = len(sh.data) - sh.pos
    if rest == 0:
        return 'op-at-end'
    if sh.pos == 0:
        return 'op-start'
    if sh.binary:
        return 'op-before-last' if rest == 1 else 'op-middle'
    nc = sh.next_char()
    if nc and nc[1] == rest:
        return 'op-before-last'
    return 'op-middle'


def run_op(w, goal):
    g = 'catch(( %s -> R0 = yes(V) ; R0 = no ), error(Err, _), R0 = raised(Err)), %s, R = r(R0, P, Eos)' % (goal, SNAP)
    return arith.run_goal(w, g, var='R', timeout=30), g


def decode(o):
    """-> (kind, value, pos, lines, eos) ; kind in yes/no/raised"""
    r0, p, eos = o[1][2]
    kind = r0[1] if r0[0] == 'a' else r0[1]
    val = r0[2][0] if r0[0] == 'c' else None
    if p[0] == 'c' and p[1] == 'position_and_lines_read':
        pos, lines = p[2][0][1], p[2][1][1]
    else:
        pos, lines = None, None
    return kind, val, pos, lines, eos[1]


def shard(ctx):
    rec = ctx.rec
    rng = ctx.rng
    w = ctx.worker()
    setup_q = 'use_module(library(lists)), use_module(library(charsio)), use_module(library(format)).'
    w.setup([{'op': 'raw', 'query': setup_q}])
    fpath = ctx.scratch_dir() + '/c19-%d.dat' % ctx.shard
    for h in range(ctx.params['n']):
        mode = rng.choice(['chars', 'chars', 'terms', 'binary']) if h % 12 else 'large'
        binary = mode == 'binary'
        jobs = [{'op': 'raw', 'query': setup_q}]
        # ---- write phase
        if mode == 'large':
            # a multi-byte character straddling a multiple of 8192 bytes (the reader's buffer size), written by the harness
            k = rng.choice([8189, 8190, 8191, 8192, 16381, 16382, 16383, 24575])
            text = 'a' * k + rng.choice(['é', '日', '\U0001F600', 'é日\U0001F600']) + ''.join(rng.choice(['b', '\n', 'ß']) for _ in range(rng.randint(0, 20)))
            data = text.encode()
            with open(fpath, 'wb') as f:
                f.write(data)
            ok = True
            large_skip = k - rng.choice([0, 1, 2, 5])
        elif mode == 'terms':
            text = gen_term_payload(rng)
            data = text.encode()
            wgoals = ['write(S, %s)' % quote_atom(text)] if False else None
            goal = "open('%s', write, S), atom_chars(A, %s), write(S, A), close(S), R = ok" % (fpath, dq_string(text))
            ok = exec_plain(rec, w, goal, jobs, 'write-readback')
        else:
            g1, d1 = gen_payload_ops(rng, binary)
            g2, d2 = gen_payload_ops(rng, binary) if rng.random() < 0.4 else ([], b'')
            data = d1 + d2
            opt = ', [type(binary)]' if binary else ''
            goal = "open('%s', write, S%s), %s close(S), R = ok" % (fpath, opt, ''.join(g + ', ' for g in g1))
            ok = exec_plain(rec, w, goal, jobs, 'write-readback')
            if ok and g2:
                goal = "open('%s', append, S%s), %s close(S), R = ok" % (fpath, opt, ''.join(g + ', ' for g in g2))
                ok = exec_plain(rec, w, goal, jobs, 'write-readback')
        if not ok:
            continue
        try:
            on_disk = open(fpath, 'rb').read()
        except OSError as e:
            on_disk = None
        rec.case('write-readback', (data,))
        if on_disk != data:
            rec.violation({'kind': 'file_content_differs_from_written', 'binary': binary},
                          {'expected_bytes': list(data)[:200], 'on_disk': list(on_disk or b'')[:200], 'jobs': jobs})
            continue
        # ---- read phase
        eof_action = rng.choice([None, 'error', 'eof_code', 'reset'])
        reposition = rng.random() < 0.4
        opts = ['alias(c19s)']
        if binary:
            opts.append('type(binary)')
        if eof_action:
            opts.append('eof_action(%s)' % eof_action)
        if reposition:
            opts.append('reposition(true)')
        goal = "open('%s', read, _, [%s]), R = ok" % (fpath, ', '.join(opts))
        if not exec_plain(rec, w, goal, jobs, 'op-start'):
            continue
        sh = Shadow(data, binary, eof_action, reposition)
        saved = []     # (pos, lines, position term text)
        broken = False
        nops = rng.randint(8, 40)
        for step in range(nops):
            if mode == 'large' and step == 0:
                op = op_get_n_chars(large_skip)      # jump close to the buffer boundary first
            else:
                op = choose_op(rng, sh, mode, saved)
            st = pos_class(sh)
            o, g = run_op(w, op['goal'])
            jobs.append({'op': 'run', 'goal': g + ' .', 'limit': 2, 'pred': 'runr'})
            rec.case(op.get('stratum') or st, (data, tuple(opts), len(jobs), op['goal']))
            if mode == 'large':
                rec.case('large-payload', (len(data), op['goal'], sh.pos))
            if eof_action and sh.past:
                rec.case('eof_action-' + eof_action, (data, op['goal']))
            if binary:
                rec.case('binary', (data, op['goal'], sh.pos))
            if op.get('peek'):
                rec.case('peek', (data, op['goal'], sh.pos))
            if o[0] != 'val':
                rec.violation({'kind': 'operation_' + o[0], 'op': op['name'], 'at': st}, {'observed': arith.show_obs(o)[:300], 'jobs': jobs[-45:], 'payload': list(data)[:120]})
                broken = True
                break
            kind, val, pos, lines, eos = decode(o)
            was_past_reset = sh.past and eof_action == 'reset'
            why = op['judge'](sh, kind, val, pos) if op.get('wants_pos') else op['judge'](sh, kind, val)     # steps the shadow
            if op['name'] == 'read_term':
                sh.clean = sh.clean or (why is None and kind == 'yes')
            elif op['name'] in ('get_char', 'get_code', 'get_n_chars', 'set_stream_position'):
                sh.clean = False
            if why == 'skip':
                # behaviour the model does not define: resynchronise from the observation
                sh.pos, sh.lines, sh.past = (pos or 0), (lines or 0), eos == 'past'
                why = None
                rec.info['model_resynchronised'] += 1
            elif why is None:
                if pos != sh.pos:
                    why = 'position_differs'
                elif eos != sh.eos():
                    if was_past_reset and eos in ('at', 'past', 'not') and (eos != 'not' or sh.pos < len(sh.data)):
                        sh.past = eos == 'past'     # both readings of reset are accepted (see ASSUMPTIONS)
                    else:
                        why = 'end_of_stream_differs'
                elif lines != sh.lines:
                    why = 'lines_read_differs'
            if op['name'] == 'save_position' and kind == 'yes':
                saved.append((sh.pos, sh.lines, sh.past, val))
            if why:
                rec.violation({'kind': why, 'op': op['name'], 'at': st, 'eof_action': eof_action or 'default', 'binary': binary},
                              {'observed': arith.show_obs(o)[:300], 'model': {'pos': sh.pos, 'lines': sh.lines, 'eos': sh.eos()},
                               'payload': list(data)[:120], 'payload_text': data.decode('utf-8', 'replace')[:120], 'jobs': jobs[-45:]})
                broken = True
                break
        exec_plain(rec, w, 'catch(close(c19s), _, true), R = ok', [], None)
        if len(rec.samples) < 5 and not broken:
            rec.sample({'payload': data.decode('utf-8', 'replace')[:60], 'options': opts, 'ops': [j['goal'][:60] for j in jobs[-6:] if 'goal' in j]})


def exec_plain(rec, w, goal, jobs, st):
    o = arith.run_goal(w, goal, var='R', timeout=30)
    jobs.append({'op': 'run', 'goal': goal + ' .', 'limit': 2, 'pred': 'runr'})
    if o != ('val', mkatom('ok')):
        if st:
            rec.violation({'kind': 'setup_goal_failed', 'stratum': st, 'how': o[0]}, {'goal': goal, 'observed': arith.show_obs(o)[:300], 'jobs': jobs[-10:]})
        return False
    return True


# ---------------------------------------------------------------- operations

def eof_formal_ok(val, what):
    # permission_error(input, past_end_of_stream, S)
    return val is not None and val[0] == 'c' and val[1] == 'permission_error' and val[2][0] == mkatom('input') and val[2][1] == mkatom(what)


def read_item(sh, kind, val, want_item, eof_item, nbytes, nlines, peek=False):
    """common judgement for get_/peek_ of one item; want_item None means the stream is at its end"""
    if sh.past:
        act = sh.eof_action or 'eof_code'
        if act == 'error':
            return None if kind == 'raised' and eof_formal_ok(val, 'past_end_of_stream') else 'past_end_read_did_not_raise'
        if act == 'eof_code':
            return None if kind == 'yes' and val == eof_item else 'past_end_read_not_eof'
        # reset: end-of-file again, or restart at the beginning
        if kind == 'yes' and val == eof_item:
            return None
        sh.pos, sh.lines, sh.past = 0, 0, False
        nc = first_item(sh, want_item)
        if nc is None:
            # empty stream: must deliver end-of-file
            sh.past = not peek
            return None if kind == 'yes' and val == eof_item else 'reset_read_wrong'
        item, nb, nl = nc
        if kind == 'yes' and val == item:
            if not peek:
                sh.pos += nb
                sh.lines += nl
            return None
        return 'reset_read_wrong'
    if want_item is None:
        if kind == 'yes' and val == eof_item:
            if not peek:
                sh.past = True
            return None
        return 'end_read_not_eof'
    if kind == 'yes' and val == want_item[0]:
        if not peek:
            sh.pos += nbytes
            sh.lines += nlines
        return None
    return 'wrong_item'


def first_item(sh, proto):
    """item at position 0 in the same representation as proto (char atom / code / byte)"""
    if not sh.data:
        return None
    if proto == 'byte':
        b = sh.data[0]
        return mkint(b), 1, 0
    c, n = Shadow(sh.data, sh.binary, None, False).next_char()
    return (mkatom(c) if proto == 'char' else mkint(ord(c))), n, (1 if c == '\n' else 0)


def mk_item_op(name, rep, peek):
    def judge(sh, kind, val):
        eof_item = mkatom('end_of_file') if rep == 'char' else mkint(-1)
        if rep == 'byte':
            if sh.pos < len(sh.data):
                b = sh.data[sh.pos]
                want, nb, nl = (mkint(b),), 1, 0
            else:
                want, nb, nl = None, 0, 0
        else:
            nc = sh.next_char()
            if nc:
                c, nb = nc
                want, nl = ((mkatom(c) if rep == 'char' else mkint(ord(c))),), (1 if c == '\n' else 0)
            else:
                want, nb, nl = None, 0, 0
        if sh.past and (sh.eof_action == 'reset'):
            return read_item(sh, kind, val, rep, eof_item, nb, nl, peek)
        return read_item(sh, kind, val, want, eof_item, nb, nl, peek)
    return {'name': name, 'goal': '%s(c19s, V)' % name, 'judge': judge, 'peek': peek}


def op_at_end(sh, kind, val):
    want = sh.eos() != 'not'
    if (kind == 'yes') != want or kind == 'raised':
        return 'at_end_of_stream_disagrees_with_model'
    return None


def op_get_n_chars(n):
    def judge(sh, kind, val):
        if sh.past:
            return 'skip'
        out, pos, lines = [], sh.pos, 0
        tmp = Shadow(sh.data, False, None, False)
        tmp.pos = sh.pos
        while len(out) < n:
            nc = tmp.next_char()
            if nc is None:
                break
            out.append(nc[0])
            tmp.pos += nc[1]
            lines += nc[0] == '\n'
        if kind != 'yes' or val != mkstr(''.join(out)):
            return 'wrong_chars'
        sh.pos = tmp.pos
        sh.lines += lines
        return None
    return {'name': 'get_n_chars', 'goal': 'get_n_chars(c19s, %d, V)' % n, 'judge': judge}


def op_wrong_type(name, binary):
    what = 'binary_stream' if binary else 'text_stream'

    def judge(sh, kind, val):
        return None if kind == 'raised' and eof_formal_ok(val, what) else 'wrong_type_operation_not_rejected'
    return {'name': name + '(wrong type)', 'goal': '%s(c19s, V)' % name, 'judge': judge, 'stratum': 'wrong-type-op'}


def op_save_position():
    def judge(sh, kind, val):
        return None if kind == 'yes' else 'position_property_missing'
    return {'name': 'save_position', 'goal': 'stream_property(c19s, position(V))', 'judge': judge, 'stratum': 'set_stream_position'}


def op_set_position(saved_entry, reposition):
    pos, lines, past, term = saved_entry

    def judge(sh, kind, val):
        if not reposition:
            ok = kind == 'raised' and val is not None and val[0] == 'c' and val[1] == 'permission_error' and val[2][0] == mkatom('reposition')
            return None if ok else 'reposition_not_refused'
        if kind != 'yes':
            return 'set_stream_position_failed'
        sh.pos, sh.lines, sh.past = pos, lines, False
        return None
    return {'name': 'set_stream_position', 'goal': 'set_stream_position(c19s, %s), V = done' % to_text(term), 'judge': judge, 'stratum': 'set_stream_position'}


def op_read_term():
    def judge(sh, kind, val, obs_pos=None):
        if sh.past:
            return 'skip'
        if kind == 'raised':
            # character reads may have left the cursor inside a term
            if val is not None and val[0] == 'c' and val[1] == 'syntax_error' and not sh.clean:
                return 'skip'
            return 'read_term_raised_at_term_boundary' if sh.clean else 'read_term_raised'
        rest = sh.data[sh.pos:].decode()
        stripped = rest.lstrip(' \n')
        if not stripped:
            # only layout left: end_of_file, everything consumed
            if kind == 'yes' and val == mkc('t', mkatom('end_of_file')):
                sh.lines += rest.count('\n')
                sh.pos = len(sh.data)
                sh.past = True
                return None
            return 'read_term_at_end_not_eof'
        if kind != 'yes':
            return 'read_term_failed'
        end = find_end(rest)
        if end is None:
            return 'skip'
        # the end token is '.' followed by a layout character; whether that character is consumed is left open
        cands = [end]
        if end < len(rest) and rest[end] in ' \n':
            cands.append(end + 1)
        for e in cands:
            if sh.pos + len(rest[:e].encode()) == obs_pos:
                sh.lines += rest[:e].count('\n')
                sh.pos = obs_pos
                return None
        sh.pos += len(rest[:cands[-1]].encode())
        sh.lines += rest[:cands[-1]].count('\n')
        return None
    return {'name': 'read_term', 'goal': 'read_term(c19s, V0, []), V = t(V0)', 'judge': judge, 'stratum': 'read_term', 'wants_pos': True}


def find_end(rest):
    """index just after the end character '.' of the first term in rest"""
    i = 0
    n = len(rest)
    while i < n:
        c = rest[i]
        if c == "'" or c == '"':
            j = i + 1
            while j < n and rest[j] != c:
                j += 2 if rest[j] == '\\' else 1
            i = j + 1
            continue
        if c == '.' and (i + 1 == n or rest[i + 1] in ' \n'):
            return i + 1
        i += 1
    return None


def choose_op(rng, sh, mode, saved):
    r = rng.random()
    binary = sh.binary
    if r < 0.06:
        return op_save_position()
    if r < 0.12 and saved:
        return op_set_position(rng.choice(saved), sh.reposition)
    if r < 0.17:
        name = rng.choice(['get_char', 'peek_char', 'get_code', 'peek_code']) if binary else rng.choice(['get_byte', 'peek_byte'])
        return op_wrong_type(name, binary)
    if r < 0.27:
        return {'name': 'at_end_of_stream', 'goal': 'at_end_of_stream(c19s), V = true', 'judge': op_at_end}
    if binary:
        return mk_item_op('get_byte', 'byte', False) if rng.random() < 0.65 else mk_item_op('peek_byte', 'byte', True)
    if mode == 'terms' and r < 0.6:
        return op_read_term()
    if r < 0.4:
        return op_get_n_chars(rng.choice([0, 1, 2, 3, 5, 100]))
    k = rng.random()
    if k < 0.35:
        return mk_item_op('get_char', 'char', False)
    if k < 0.55:
        return mk_item_op('get_code', 'code', False)
    if k < 0.8:
        return mk_item_op('peek_char', 'char', True)
    return mk_item_op('peek_code', 'code', True)
