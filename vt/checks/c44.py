"""C44 Prolog flags read back what was set.

Oracle: history + invariants: after every set_prolog_flag/2 call the whole flag table is
read back (enumeration, flag-bound and value-bound modes must agree); a successful set must
be visible, a failed or raising set must leave the table unchanged, read-only flags never
change, documented errors are raised, and double_quotes / occurs_check / unknown take effect."""
from .. import arith
from ..terms import mkint, mkatom, mklist, mkc, NIL, show, to_text, rename_canonical

ID = 'C44'
LEVEL = 'exploration'
RULE = ('histories of 1-15 set_prolog_flag/2 calls over the flags bounded, max_integer, min_integer, integer_rounding_function, '
        'max_arity, double_quotes, unknown, occurs_check, answer_write_options and unknown flag names, with values drawn from the '
        'flag\'s own values, other flags\' values, junk terms, numbers and unbound variables; after each call: enumeration vs '
        'flag-bound vs value-bound reads of every flag, visibility of a successful set, table unchanged after failure/error, '
        'read-only flags constant, error formals; effect probes after each change of double_quotes (reading "ab"), occurs_check '
        '(X = f(X)) and unknown (calling an undefined predicate). distinct = distinct histories; non-trivial = all')
PARAMS = {'quick': {'n': 60}, 'thorough': {'n': 4000}}
MIN_EVAL = {'quick': 8000, 'thorough': 500000}
STRATA = ['read-modes', 'set-valid', 'set-invalid-value', 'set-read-only', 'set-unknown-flag', 'set-instantiation', 'effect-double_quotes',
          'effect-occurs_check', 'effect-unknown']
ASSUMPTIONS = ['ISO 8.17.1/8.17.2 error cases as cited in the library source', 'a read-only flag may be "set" to its current value']

WRITABLE = {'double_quotes': ['chars', 'atom', 'codes'], 'unknown': ['error', 'warning', 'fail'], 'occurs_check': ['true', 'false', 'error'],
            'answer_write_options': ['[]', '[max_depth(5)]', '[quoted(true)]', '[quoted(false),max_depth(2)]']}
READ_ONLY = ['bounded', 'max_integer', 'min_integer', 'integer_rounding_function', 'max_arity']
JUNK_VALUES = ['foo', '1', '1.5', 'f(x)', '[]', '"str"', 'chars', 'error', 'true', 'false', 'down', 'toward_zero', '255', 'on', 'off', '[bar]', '[max_depth(a)]', '[quoted(true)|foo]']
DEFAULTS = 'set_prolog_flag(double_quotes, chars), set_prolog_flag(unknown, error), set_prolog_flag(occurs_check, false), set_prolog_flag(answer_write_options, [])'

SNAP = ("findall(F-V, current_prolog_flag(F, V), En), "
        "findall(F-Vs, ( member(F, [bounded, max_integer, min_integer, integer_rounding_function, max_arity, double_quotes, unknown, occurs_check, answer_write_options]), "
        "findall(V, current_prolog_flag(F, V), Vs) ), Bound), "
        "findall(F-V, ( member(F-V, En), \\+ current_prolog_flag(F, V) ), NotConfirmed), R = snap(En, Bound, NotConfirmed)")


def snapshot(w):
    return arith.run_goal(w, SNAP, var='R', timeout=30)


def table_of(snap):
    """dict flag -> list of values (from enumeration)"""
    en = snap[1][2][0]
    d = {}
    if en != NIL:
        for p in en[1]:
            d.setdefault(p[2][0][1], []).append(p[2][1])
    return d


def shard(ctx):
    rec = ctx.rec
    rng = ctx.rng
    w = ctx.worker()
    w.use_modules(['lists', 'charsio'])
    n = ctx.params['n']
    for h in range(n):
        if h % 15 == 0:
            w.job({'op': 'new'})
            w.use_modules(['lists', 'charsio'])
        arith.run_goal(w, DEFAULTS + ', R = ok', var='R')
        s0 = snapshot(w)
        if s0[0] != 'val':
            rec.violation({'kind': 'snapshot_failed', 'how': s0[0]}, {'observed': arith.show_obs(s0)})
            continue
        problem = check_snapshot(s0)
        rec.case('read-modes', ('h', ctx.shard, h))
        if problem:
            rec.violation({'kind': problem[0], 'flag': problem[1]}, {'goal': SNAP, 'observed': arith.show_obs(s0)[:800],
                                                                     'jobs': [{'op': 'raw', 'query': 'use_module(library(lists)).'}, {'op': 'run', 'goal': SNAP + ' .', 'limit': 2, 'pred': 'runr'}]})
        cur = table_of(s0)
        hist = []
        for step in range(rng.randint(1, 15)):
            k = rng.random()
            if k < 0.45:
                f = rng.choice(sorted(WRITABLE))
                v = rng.choice(WRITABLE[f]) if rng.random() < 0.7 else rng.choice(JUNK_VALUES)
            elif k < 0.7:
                f = rng.choice(READ_ONLY)
                v = rng.choice(JUNK_VALUES + ['false', 'toward_zero', '255'])
            elif k < 0.85:
                f = rng.choice(['no_such_flag', 'debug', 'f(x)', '1', '"dq"', 'char_conversion'])
                v = rng.choice(JUNK_VALUES)
            else:
                f, v = rng.choice([('_', 'foo'), ('double_quotes', '_'), ('_', '_'), ('unknown', '_')])
            goal = 'catch(( set_prolog_flag(%s, %s) -> R = yes ; R = no ), error(E, _), R = raised(E))' % (f, v)
            o = arith.run_goal(w, goal, var='R')
            hist.append(goal)
            s1 = snapshot(w)
            rec.info['sets_observed'] += 1
            if o[0] != 'val' or s1[0] != 'val':
                rec.violation({'kind': 'set_or_snapshot_' + (o[0] if o[0] != 'val' else s1[0])}, {'history': list(hist), 'observed': arith.show_obs(o), 'jobs': jobs(hist)})
                break
            new = table_of(s1)
            res = o[1]
            outcome = res[1] if res[0] == 'a' else 'raised'
            st, bad = judge_set(f, v, outcome, res, cur, new)
            rec.case(st, (f, v, tuple(sorted((k2, repr(v2)) for k2, v2 in cur.items()))))
            p2 = check_snapshot(s1)
            if p2:
                rec.violation({'kind': p2[0], 'flag': p2[1]}, {'history': list(hist), 'observed': arith.show_obs(s1)[:800], 'jobs': jobs(hist) + [{'op': 'run', 'goal': SNAP + ' .', 'limit': 2, 'pred': 'runr'}]})
            if bad:
                rec.violation({'kind': bad, 'flag': f if f in WRITABLE or f in READ_ONLY else 'other', 'value': v if len(v) < 14 else 'long'},
                              {'history': list(hist), 'observed': arith.show_obs(o), 'before': {k2: [show(x) for x in v2] for k2, v2 in cur.items()},
                               'after': {k2: [show(x) for x in v2] for k2, v2 in new.items()}, 'jobs': jobs(hist)})
            cur = new
            # effect probes for the flag just written
            if f in WRITABLE and f != 'answer_write_options' and outcome == 'yes':
                effect_probe(rec, w, f, v, hist)
        if len(rec.samples) < 4:
            rec.sample({'history': hist[:6], 'final_table': {k2: [show(x) for x in v2] for k2, v2 in cur.items()}})


def jobs(hist):
    return [{'op': 'raw', 'query': 'use_module(library(lists)), use_module(library(charsio)).'}] + [{'op': 'run', 'goal': g + ' .', 'limit': 2, 'pred': 'runr'} for g in hist[-6:]]


def check_snapshot(s):
    en, bound, notconf = s[1][2]
    d = table_of(s)
    for f, vs in d.items():
        if len(vs) != 1:
            return ('flag_enumerated_with_several_values', f)
    if notconf != NIL:
        return ('enumerated_value_not_confirmed_in_checking_mode', notconf[1][0][2][0][1])
    if bound != NIL:
        for p in bound[1]:
            f = p[2][0][1]
            vs = [] if p[2][1] == NIL else list(p[2][1][1])
            if vs != d.get(f, []):
                return ('flag_bound_read_differs_from_enumeration', f)
    return None


def judge_set(f, v, outcome, res, cur, new):
    """-> (stratum, problem or None)"""
    changed = {k for k in set(cur) | set(new) if cur.get(k) != new.get(k)}
    ro_changed = [k for k in changed if k in READ_ONLY]
    if ro_changed:
        return 'set-read-only', 'read_only_flag_changed'
    formal = res[2][0] if outcome == 'raised' else None
    fname = formal[1] if formal is not None and formal[0] in 'ca' else None
    if f == '_' or v == '_':
        if f == '_' or f in WRITABLE or f in READ_ONLY:
            if outcome != 'raised' or fname != 'instantiation_error':
                return 'set-instantiation', 'missing_instantiation_error'
            return 'set-instantiation', ('table_changed_by_failed_set' if changed else None)
    if f in WRITABLE:
        valid = v in WRITABLE[f]
        if valid:
            if outcome != 'yes':
                return 'set-valid', 'valid_set_did_not_succeed'
            if [show(x).replace(' ', '') for x in new.get(f, [])] != [v]:
                return 'set-valid', 'successful_set_not_visible'
            if changed - {f}:
                return 'set-valid', 'other_flag_changed'
            return 'set-valid', None
        if outcome == 'yes':
            return 'set-invalid-value', 'invalid_value_accepted'
        if changed:
            return 'set-invalid-value', 'table_changed_by_failed_set'
        if outcome == 'raised' and not (fname == 'domain_error' and formal[2][0] == ('a', 'flag_value')):
            return 'set-invalid-value', 'wrong_error_for_invalid_value'
        if outcome == 'no':
            return 'set-invalid-value', 'invalid_value_fails_silently'
        return 'set-invalid-value', None
    if f in READ_ONLY:
        if changed:
            return 'set-read-only', 'table_changed'
        if outcome == 'yes' and [show(x) for x in new.get(f, [])] != [v]:
            return 'set-read-only', 'set_succeeded_but_value_does_not_hold'
        return 'set-read-only', None
    # unknown flag / non-atom flag
    if changed:
        return 'set-unknown-flag', 'table_changed_by_failed_set'
    if outcome != 'raised':
        return 'set-unknown-flag', 'missing_error_for_unknown_flag'
    dq = [show(x) for x in cur.get('double_quotes', [])]
    want = 'domain_error' if f in ('no_such_flag', 'debug', 'char_conversion') or (f == '"dq"' and dq == ['atom']) else 'type_error'
    if fname != want:
        return 'set-unknown-flag', 'wrong_error_for_unknown_flag'
    return 'set-unknown-flag', None


def effect_probe(rec, w, f, v, hist):
    if f == 'double_quotes':
        o = arith.run_goal(w, 'atom_chars(\'"ab" .\', Cs), read_term_from_chars(Cs, R, [])', var='R')
        want = {'chars': mklist([mkatom('a'), mkatom('b')]), 'codes': mklist([mkint(97), mkint(98)]), 'atom': mkatom('ab')}[v]
        rec.case('effect-double_quotes', ('dq', v))
        ok = o == ('val', want)
    elif f == 'occurs_check':
        o = arith.run_goal(w, 'catch(( X = f(X) -> R = unified ; R = failed ), error(E, _), R = raised)', var='R')
        want = {'true': mkatom('failed'), 'false': mkatom('unified'), 'error': mkatom('raised')}[v]
        rec.case('effect-occurs_check', ('oc', v))
        ok = o == ('val', want)
    else:
        o = arith.run_goal(w, 'catch(( c44_undefined_predicate(1) -> R = succeeded ; R = failed ), error(E, _), R = raised(E))', var='R')
        rec.case('effect-unknown', ('unk', v))
        if v == 'error':
            ok = o[0] == 'val' and o[1][0] == 'c' and o[1][1] == 'raised' and o[1][2][0][0] == 'c' and o[1][2][0][1] == 'existence_error'
        else:
            ok = o == ('val', mkatom('failed'))
    if not ok:
        rec.violation({'kind': 'flag_has_no_effect', 'flag': f, 'value': v}, {'history': list(hist), 'observed': arith.show_obs(o), 'jobs': jobs(hist)})
