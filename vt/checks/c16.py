"""C16 Numeric literals and number/text conversions are exact.

Oracle: reference (Python int(text, base), float(text) = correctly rounded, ord) for
literal spellings generated together with their value, plus differential between the
reader and number_codes/number_chars, plus number -> text -> number round trips."""
import math
import struct

from .. import arith
from ..terms import mkint, mkfloat, to_text, show, bits2f, f2bits, float_text
from ..gen import rand_int, rand_float, BOUNDARY_INTS

ID = 'C16'
LEVEL = 'exploration'
RULE = ('(text, value) pairs built constructively: decimal integers with and without _ groups, 0b/0o/0x integers up to 200 '
        'digits, 0\'c character codes with every escape form, float literals (short, 17-digit shortest, 18-40 digit mantissas, '
        'halfway cases between adjacent doubles, subnormal and overflow boundaries, exponent sign forms), negative literals; '
        'each text is read by the term reader, number_codes/2 and number_chars/2 and compared with the reference value; '
        'malformed spellings must be syntax errors on the conversion builtins; every value is also printed by the engine and '
        'read back (round trip, floats bit-exact). distinct = distinct texts; non-trivial = all but plain decimal integers < 2^31')
PARAMS = {'quick': {'n': 2500}, 'thorough': {'n': 150000}}
MIN_EVAL = {'quick': 60000, 'thorough': 3000000}
STRATA = ['dec-int', 'dec-underscore', 'radix', 'char-code', 'float-short', 'float-shortest17', 'float-long-mantissa',
          'float-halfway', 'float-boundary', 'negative', 'malformed', 'roundtrip-int', 'roundtrip-float']
ASSUMPTIONS = ['Python float(text) is the correctly rounded double; int(text, base) is the integer value',
               'which syntax_error is raised is not compared', '-0.0 may read back as 0.0 (not compared by sign)']

ESCAPES = [("\\n", 10), ("\\t", 9), ("\\\\", 92), ("\\'", 39), ('\\"', 34), ("\\`", 96), ("\\a", 7), ("\\b", 8), ("\\f", 12),
           ("\\v", 11), ("\\r", 13), ("\\0\\", 0), ("\\x41\\", 0x41), ("\\x10FFFF\\", 0x10FFFF), ("\\101\\", 0o101),
           ("''", 39), ("\\e", None), ("\\s", None)]


def group_underscores(rng, digits):
    out = []
    i = 0
    while i < len(digits):
        k = rng.randint(1, 4)
        out.append(digits[i:i + k])
        i += k
    return '_'.join(out)


def gen_case(rng, i):
    """-> (stratum, text, value term or None for malformed)"""
    r = i % 13
    if r == 0:
        n = abs(rand_int(rng))
        return 'dec-int', str(n), mkint(n)
    if r == 1:
        n = abs(rand_int(rng)) + 1000
        return 'dec-underscore', group_underscores(rng, str(n)), mkint(n)
    if r == 2:
        base, pre, alphabet = rng.choice([(2, '0b', '01'), (8, '0o', '01234567'), (16, '0x', '0123456789abcdefABCDEF')])
        k = rng.choice([1, 2, 8, 16, 17, 31, 32, 33, 63, 64, 65, 200]) if rng.random() < 0.7 else rng.randint(1, 70)
        ds = ''.join(rng.choice(alphabet) for _ in range(k))
        return 'radix', pre + ds, mkint(int(ds, base))
    if r == 3:
        if rng.random() < 0.5:
            e, v = rng.choice(ESCAPES)
            if v is None:
                return 'malformed', "0'" + e, None
            return 'char-code', "0'" + e, mkint(v)
        c = rng.choice(['a', 'Z', '0', ' ', '~', 'é', '日', '\U0001F600', '(', ')', ',', '|', '[', '%', '"', '`', '_', '.', '!'])
        return 'char-code', "0'" + c, mkint(ord(c))
    if r == 4:
        m = '%d.%s' % (rng.randint(0, 9999), ''.join(rng.choice('0123456789') for _ in range(rng.randint(1, 6))))
        e = rng.choice(['', '', 'e%d' % rng.randint(-30, 30), 'E%d' % rng.randint(0, 300), 'e+%d' % rng.randint(0, 30), 'e-%d' % rng.randint(0, 320)])
        t = m + e
        return 'float-short', t, fl(t)
    if r == 5:
        x = abs(rand_float(rng))
        t = float_text(x)
        return 'float-shortest17', t, mkfloat(x)
    if r == 6:
        nd = rng.randint(18, 40)
        ip = str(rng.randint(0, 99999))
        frac = ''.join(rng.choice('0123456789') for _ in range(nd))
        e = rng.choice(['', 'e%d' % rng.randint(-300, 290), 'e-%d' % rng.randint(280, 330), 'e%d' % rng.randint(280, 303)])
        t = '%s.%s%s' % (ip, frac, e)
        return 'float-long-mantissa', t, fl(t)
    if r == 7:
        # exact decimal expansion of the midpoint between two adjacent doubles, +- a tiny perturbation
        x = abs(rand_float(rng))
        if x == 0 or x > 1e300:
            x = 1.5
        y = math.nextafter(x, math.inf)
        from fractions import Fraction
        mid = (Fraction(x) + Fraction(y)) / 2
        t = dec_expand(mid, rng.choice([0, 1, -1]))
        if t is None:
            return gen_case(rng, 6)
        return 'float-halfway', t, fl(t)
    if r == 8:
        t = rng.choice(['1.7976931348623157e308', '1.7976931348623158e308', '1.79769313486231570e308', '4.9e-324', '5.0e-324',
                        '2.4703282292062328e-324', '2.4703282292062327e-324', '2.2250738585072014e-308', '2.2250738585072011e-308',
                        '2.225073858507201e-308', '0.0', '0.0e0', '1.0e-400', '9007199254740993.0', '9007199254740992.5',
                        '4503599627370496.5', '0.1', '0.30000000000000004', '1.0e23', '8.5e22', '123456789012345678901234567890.0',
                        '0.000000000000000000000000000000000000001', '1.0e0', '1.0E5'])
        return 'float-boundary', t, fl(t)
    if r == 9:
        st, t, v = gen_case(rng, rng.choice([0, 1, 2, 4, 5, 6]))
        if v is None:
            return st, t, v
        if v[0] == 'i':
            return 'negative', '-' + t, mkint(-v[1])
        return 'negative', '-' + t, mkfloat(-bits2f(v[1]))
    if r == 10:
        t = rng.choice(['0b2', '0b', '0x', '0xg', '0o8', '0o', '1e5', '1.e5', '1.0e', '1.0e+', '1.', '.5', '1_', '1__0', '_1', '1.0Inf',
                        'NaN', 'inf', '1.5NaN', '0x1.8p3', '1,5', '１', '0\'', '1e', '12a', '0b102', '1.0e5.0', '--1', '+-1',
                        '1 2', '1.0 e5', '0x 1F', '1._5', '1.5_0', "0'ab", '0.', 'e5', '1r5', "1'000", '1.0f', '0x1G'])
        return 'malformed', t, None
    if r == 11:
        return 'roundtrip-int', None, mkint(rand_int(rng))
    if r == 12:
        return 'roundtrip-float', None, mkfloat(rand_float(rng))
    return gen_case(rng, 0)


def fl(t):
    x = float(t.replace('_', ''))
    if math.isinf(x):
        return None
    return mkfloat(x)


def dec_expand(fr, perturb):
    """exact decimal text of a positive Fraction with a power-of-two denominator"""
    n, d = fr.numerator, fr.denominator
    k = 0
    while d % 2 == 0 and k < 1200:
        d //= 2
        n *= 5
        k += 1
    if d != 1:
        return None
    s = str(n)
    if k >= len(s):
        s = '0' * (k - len(s) + 1) + s
    ip, fp = s[:len(s) - k], s[len(s) - k:]
    fp = fp.rstrip('0') or '0'
    if len(fp) > 800 or len(ip) > 320:
        return None
    if perturb == 1:
        fp += '1'
    elif perturb == -1:
        # slightly below the midpoint
        fp = str(int(fp) - 1).rjust(len(fp), '0') + '9' if int(fp) > 0 else fp
    return ip + '.' + fp


def esc_dq(t):
    return t.replace('\\', '\\\\').replace('"', '\\"')


def esc_sq(t):
    return t.replace('\\', '\\\\').replace("'", "\\'")


def same_number(exp, got):
    if exp[0] == 'f' and got[0] == 'f':
        a, b = bits2f(exp[1]), bits2f(got[1])
        return exp[1] == got[1] or (a == 0 and b == 0)
    return exp == got


def shard(ctx):
    rec = ctx.rec
    rng = ctx.rng
    w = ctx.worker()
    w.use_modules(['lists', 'charsio'])
    n = ctx.params['n']
    seen = set()
    for i in range(n):
        st, text, val = gen_case(rng, i + ctx.shard)
        key = (st, text, val)
        if key in seen:
            continue
        seen.add(key)
        if text is None:
            roundtrip(ctx, w, st, val)
            continue
        if val is None and st != 'malformed':
            continue
        paths = {
            'reader': 'X = %s' % text,
            'read_term_from_chars': 'read_term_from_chars("%s .", X, [])' % esc_dq(text),
            'number_chars': 'number_chars(X, "%s")' % esc_dq(text),
            'number_codes': "atom_codes('%s', Cs), number_codes(X, Cs)" % esc_sq(text),
        }
        obs = {}
        for name, goal in paths.items():
            o = arith.run_goal(w, goal)
            if o[0] == 'other' and 'parse_error' in o[1]:
                o = ('err', ('c', 'syntax_error', ()))
            obs[name] = o
        nontriv = not (st == 'dec-int' and val[1] < 2 ** 31)
        rec.case(st, text, nontrivial=nontriv, n=len(paths))
        rec.info['texts_read'] += len(paths)
        bad = None
        for name, o in obs.items():
            if o[0] in ('panic', 'died'):
                bad = (name, 'crash')
                break
            if o[0] == 'timeout':
                rec.inconc('timeout')
                continue
            is_syntax_err = o[0] == 'err' and o[1] is not None and o[1][0] == 'c' and o[1][1] == 'syntax_error'
            if val is None:
                # malformed: the conversion builtins must raise syntax errors; the reader may
                # legitimately read a prefix/other term, so it is only required not to crash
                if name in ('number_chars', 'number_codes') and not is_syntax_err:
                    bad = (name, 'accepted_malformed')
                    break
            else:
                if o[0] != 'val' or not same_number(val, o[1]):
                    bad = (name, 'wrong_value' if o[0] == 'val' else ('rejected_valid' if is_syntax_err else 'other'))
                    break
        if bad is None:
            if len(rec.samples) < 6 and i % 17 == 0:
                rec.sample({'text': text, 'expected': show(val) if val else 'syntax_error', 'observed': {k: arith.show_obs(v) for k, v in obs.items()}})
            continue
        sig = {'kind': bad[1], 'path': bad[0], 'stratum': st}
        if bad[1] == 'wrong_value' and val[0] == 'f' and obs[bad[0]][1][0] == 'f':
            d = abs(key_of(bits2f(val[1])) - key_of(bits2f(obs[bad[0]][1][1])))
            sig['ulps'] = d if d < 4 else 'many'
            sig['mantissa_digits'] = '>17' if len([c for c in text.split('e')[0].split('E')[0] if c.isdigit()]) > 17 else '<=17'
        if val is None:
            sig['text'] = text
        arith.panic_sig(sig, obs[bad[0]])
        rec.violation(sig, {'text': text, 'expected': show(val) if val else 'syntax_error',
                            'observed': {k: arith.show_obs(v) for k, v in obs.items()},
                            'jobs': [{'op': 'raw', 'query': 'use_module(library(charsio)).'}] + [{'op': 'run', 'goal': g + ' .', 'limit': 2} for g in paths.values()]})


def key_of(x):
    b = f2bits(x)
    return b if b < (1 << 63) else (1 << 63) - b


def roundtrip(ctx, w, st, val):
    rec = ctx.rec
    vt = to_text(val)
    goals = {
        'number_codes': 'X0 is %s, number_codes(X0, Cs), number_codes(X, Cs)' % vt,
        'number_chars': 'X0 is %s, number_chars(X0, Cs), number_chars(X, Cs)' % vt,
        'writeq-read': 'X0 is %s, write_term_to_chars(X0, [quoted(true)], Cs), append(Cs, " .", Cs1), read_term_from_chars(Cs1, X, [])' % vt,
    }
    rec.case(st, vt, n=len(goals))
    for name, goal in goals.items():
        o = arith.run_goal(w, goal)
        rec.info['round_trips'] += 1
        if o[0] == 'val' and same_number(val, o[1]):
            continue
        if o[0] == 'timeout':
            rec.inconc('timeout')
            continue
        sig = {'kind': 'roundtrip_' + ('changed' if o[0] == 'val' else o[0]), 'path': name, 'stratum': st}
        arith.panic_sig(sig, o)
        rec.violation(sig, {'value': vt, 'observed': arith.show_obs(o), 'jobs': [{'op': 'raw', 'query': 'use_module(library(charsio)), use_module(library(lists)).'}, {'op': 'run', 'goal': goal + ' .', 'limit': 2}]})
