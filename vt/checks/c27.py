"""C27 clp(Z) labeling is sound and complete on finite domains.

Oracle: reference model (brute-force enumeration).  Random systems of 1-4 constraints over 2-4
variables with small interval domains are enumerated by the check over the whole domain product;
the list of labelled solutions of library(clpz) (several labeling strategies) must be the same
multiset.  Ground constraints are compared with integer arithmetic of the check."""
import itertools

from .. import arith
from ..terms import mkint, mkatom, mklist, mkc, NIL, show

ID = 'C27'
LEVEL = 'exploration'
RULE = ('systems of 1-4 constraints over 2-4 variables with domains inside -4..5 (also unions A..B \\/ C..D); relations #= #\\= #< #=< #> #>=; '
        'expressions of depth <= 3 over + - * abs min max // mod rem and unary minus, variables and constants -3..6; sum/3 with a random '
        'relation, all_different/1, all_distinct/1; reified combinations with #<==> #==> #\\/ #/\\ #\\ and a 0/1 variable (no division '
        'inside reified constraints); labeling with label/1 or labeling/2 with leftmost / ff / ffc / min / max, up / down, step / enum / bisect; '
        'ground stratum: X #= ground expression and ground relations. distinct = distinct goals; non-trivial = system with at least one solution and not all')
PARAMS = {'quick': {'n': 600}, 'thorough': {'n': 12000}}
MIN_EVAL = {'quick': 16000, 'thorough': 300000}
STRATA = ['linear', 'nonlinear', 'division', 'sum', 'all_different', 'reified', 'ground', 'domain-union', 'labeling-options', 'no-solution', 'some-solutions']
ASSUMPTIONS = ['// truncates, rem follows the dividend, mod follows the divisor; an assignment with a zero divisor is not a solution',
               'solutions are compared as sorted lists with multiplicity (the order depends on the labeling strategy)']

VARS = ['X', 'Y', 'Z', 'W']
RELS = {'#=': lambda a, b: a == b, '#\\=': lambda a, b: a != b, '#<': lambda a, b: a < b, '#=<': lambda a, b: a <= b, '#>': lambda a, b: a > b, '#>=': lambda a, b: a >= b}


def num(x):
    return str(x) if x >= 0 else '(%d)' % x


class Undefined(Exception):
    pass


def tdiv(a, b):
    if b == 0:
        raise Undefined()
    q = abs(a) // abs(b)
    return q if (a >= 0) == (b >= 0) else -q


def ev(e, env):
    k = e[0]
    if k == 'k':
        return e[1]
    if k == 'v':
        return env[e[1]]
    if k == 'neg':
        return -ev(e[1], env)
    if k == 'abs':
        return abs(ev(e[1], env))
    a, b = ev(e[2], env), ev(e[3], env)
    op = e[1]
    if op == '+':
        return a + b
    if op == '-':
        return a - b
    if op == '*':
        return a * b
    if op == 'min':
        return min(a, b)
    if op == 'max':
        return max(a, b)
    if op == '//':
        return tdiv(a, b)
    if op == 'rem':
        return a - b * tdiv(a, b)
    if op == 'mod':
        if b == 0:
            raise Undefined()
        return a % b
    raise AssertionError(op)


def etext(e):
    k = e[0]
    if k == 'k':
        return str(e[1]) if e[1] >= 0 else '(%d)' % e[1]
    if k == 'v':
        return VARS[e[1]]
    if k == 'neg':
        return '-(%s)' % etext(e[1])
    if k == 'abs':
        return 'abs(%s)' % etext(e[1])
    if e[1] in ('min', 'max'):
        return '%s(%s, %s)' % (e[1], etext(e[2]), etext(e[3]))
    return '(%s %s %s)' % (etext(e[2]), e[1], etext(e[3]))


def gen_expr(rng, d, nv, feats, div=True, ground=False):
    r = rng.random()
    if d <= 0 or r < 0.3:
        if ground or rng.random() < 0.3:
            return ('k', rng.randint(-3, 6))
        return ('v', rng.randrange(nv))
    if r < 0.36:
        return ('neg', gen_expr(rng, d - 1, nv, feats, div, ground))
    if r < 0.43:
        feats.add('nonlinear')
        return ('abs', gen_expr(rng, d - 1, nv, feats, div, ground))
    ops = ['+', '+', '-', '-', '*', 'min', 'max'] + (['//', 'mod', 'rem'] if div else [])
    op = rng.choice(ops)
    if op in ('//', 'mod', 'rem'):
        feats.add('division')
    elif op in ('*', 'min', 'max'):
        feats.add('nonlinear')
    return ('b', op, gen_expr(rng, d - 1, nv, feats, div, ground), gen_expr(rng, d - 1, nv, feats, div, ground))


def gen_rel(rng, nv, feats, div=True, ground=False, depth=None):
    rel = rng.choice(list(RELS))
    d = rng.randint(0, 3) if depth is None else depth
    a, b = gen_expr(rng, d, nv, feats, div, ground), gen_expr(rng, rng.randint(0, 2), nv, feats, div, ground)
    return ('rel', rel, a, b)


def ctext(c):
    k = c[0]
    if k == 'rel':
        return '%s %s %s' % (etext(c[2]), c[1], etext(c[3]))
    if k == 'sum':
        return 'sum([%s], %s, %s)' % (', '.join(VARS[v] for v in c[1]), c[2], etext(c[3]))
    if k == 'alldiff':
        return '%s([%s])' % (c[2], ', '.join(VARS[v] for v in c[1]))
    if k == 'not':
        return '#\\ (%s)' % ctext(c[1])
    if k == 'bvar':
        return 'B'
    return '(%s) %s (%s)' % (ctext(c[2]), c[1], ctext(c[3]))


def holds(c, env):
    k = c[0]
    if k == 'rel':
        return RELS[c[1]](ev(c[2], env), ev(c[3], env))
    if k == 'sum':
        return RELS[c[2]](sum(env[v] for v in c[1]), ev(c[3], env))
    if k == 'alldiff':
        vals = [env[v] for v in c[1]]
        return len(set(vals)) == len(vals)
    if k == 'not':
        return not holds(c[1], env)
    if k == 'bvar':
        return env['B'] == 1
    a, b = holds(c[2], env), holds(c[3], env)
    return {'#<==>': a == b, '#==>': (not a) or b, '#\\/': a or b, '#/\\': a and b}[c[1]]


def gen_reif(rng, nv, feats, d):
    r = rng.random()
    if d <= 0 or r < 0.4:
        if rng.random() < 0.25:
            return ('bvar',)
        return gen_rel(rng, nv, feats, div=False, depth=rng.randint(0, 1))
    if r < 0.5:
        return ('not', gen_reif(rng, nv, feats, d - 1))
    return ('conn', rng.choice(['#<==>', '#==>', '#\\/', '#/\\']), gen_reif(rng, nv, feats, d - 1), gen_reif(rng, nv, feats, d - 1))


def uses_b(c):
    if c[0] == 'bvar':
        return True
    if c[0] == 'not':
        return uses_b(c[1])
    if c[0] == 'conn':
        return uses_b(c[2]) or uses_b(c[3])
    return False


def shard(ctx):
    rec = ctx.rec
    rng = ctx.rng
    w = ctx.worker()
    setup_q = 'use_module(library(lists)), use_module(library(clpz)).'
    setup = [{'op': 'raw', 'query': setup_q}]
    w.setup(setup)
    for i in range(ctx.params['n']):
        nv = rng.randint(2, 4)
        feats = set()
        doms, dom_txt = [], []
        for v in range(nv):
            lo = rng.randint(-4, 2)
            hi = lo + rng.randint(1, 4)
            if rng.random() < 0.2:
                lo2 = hi + 2
                hi2 = lo2 + rng.randint(0, 1)
                doms.append(list(range(lo, hi + 1)) + list(range(lo2, hi2 + 1)))
                dom_txt.append('%s in %s..%s \\/ %s..%s' % (VARS[v], num(lo), num(hi), num(lo2), num(hi2)))
                feats.add('domain-union')
            else:
                doms.append(list(range(lo, hi + 1)))
                dom_txt.append('%s in %s..%s' % (VARS[v], num(lo), num(hi)))
        cons = []
        for _ in range(rng.randint(1, 4)):
            r = rng.random()
            if r < 0.55:
                c = gen_rel(rng, nv, feats)
                if 'nonlinear' not in feats and 'division' not in feats:
                    feats.add('linear')
            elif r < 0.67:
                c = ('sum', [rng.randrange(nv) for _ in range(rng.randint(1, nv))], rng.choice(list(RELS)), gen_expr(rng, 1, nv, feats, div=False))
                feats.add('sum')
            elif r < 0.77:
                c = ('alldiff', rng.sample(range(nv), rng.randint(2, nv)), rng.choice(['all_different', 'all_distinct']))
                feats.add('all_different')
            else:
                c = gen_reif(rng, nv, feats, rng.randint(1, 2))
                while c[0] == 'bvar':
                    c = gen_reif(rng, nv, feats, rng.randint(1, 2))
                feats.add('reified')
            cons.append(c)
        useb = any(uses_b(c) for c in cons)
        names = VARS[:nv] + (['B'] if useb else [])
        alld = doms + ([[0, 1]] if useb else [])
        sols = []
        for vals in itertools.product(*alld):
            env = dict(enumerate(vals[:nv]))
            if useb:
                env['B'] = vals[-1]
            try:
                if all(holds(c, env) for c in cons):
                    sols.append(vals)
            except Undefined:
                pass
        total = 1
        for d in alld:
            total *= len(d)
        r = rng.random()
        if r < 0.3:
            lab = 'label(Vs)'
        else:
            opts = []
            if rng.random() < 0.7:
                opts.append(rng.choice(['leftmost', 'ff', 'ffc', 'min', 'max']))
            if rng.random() < 0.5:
                opts.append(rng.choice(['up', 'down']))
            if rng.random() < 0.5:
                opts.append(rng.choice(['step', 'enum', 'bisect']))
            lab = 'labeling([%s], Vs)' % ', '.join(opts)
            feats.add('labeling-options')
        order = list(range(len(cons)))
        body = dom_txt + (['B in 0..1'] if useb else []) + [ctext(cons[k]) for k in order]
        if rng.random() < 0.3:
            rng.shuffle(body)      # constraints posted before the domains are known
        goal = 'findall(Vs, ( Vs = [%s], %s, %s ), R)' % (', '.join(names), ', '.join(body), lab)
        sysgoal = goal
        o = arith.run_goal(w, goal, var='R', timeout=60)
        key = (goal,)
        st = 'no-solution' if not sols else 'some-solutions'
        rec.case(st, key, nontrivial=0 < len(sols) < total)
        for f in feats:
            rec.case(f, key + (f,))
        if o[0] == 'timeout':
            rec.inconc('timeout')
        else:
            want = sorted(show(mklist([mkint(x) for x in s])) for s in sols)
            ok = o[0] == 'val' and (o[1] == NIL or o[1][0] == 'l') and sorted(show(x) for x in (o[1][1] if o[1] != NIL else [])) == want
            if ok:
                rec.info['solutions_compared'] += len(sols)
                rec.info['assignments_enumerated'] += total
            else:
                got = sorted(show(x) for x in (o[1][1] if o[0] == 'val' and o[1] != NIL and o[1][0] == 'l' else []))
                kind = o[0]
                if o[0] == 'val':
                    missing = [x for x in want if x not in got]
                    extra = [x for x in got if x not in want]
                    kind = 'solution_missing' if missing else 'wrong_solution' if extra else 'solution_repeated'
                sig = {'kind': kind, 'features': '+'.join(sorted(feats - {'labeling-options', 'domain-union', 'linear'}))}
                arith.panic_sig(sig, o)
                rec.violation(sig, {'goal': goal, 'expected': want[:30], 'observed': arith.show_obs(o)[:600],
                                    'jobs': setup + [{'op': 'run', 'goal': goal + ' .', 'limit': 2, 'pred': 'runr'}]})
        # ground stratum
        gf = set()
        e = gen_expr(rng, rng.randint(1, 3), 0, gf, div=True, ground=True)
        try:
            val = ev(e, {})
            goal = 'X #= %s, R = X' % etext(e)
            want_t = mkint(val)
        except Undefined:
            goal = '( catch(X #= %s, error(_, _), fail) -> R = X ; R = none )' % etext(e)
            want_t = mkatom('none')
        c = gen_rel(rng, 0, gf, div=False, ground=True)
        goal2 = '( %s -> R = yes ; R = no )' % ctext(c)
        want2 = mkatom('yes' if holds(c, {}) else 'no')
        for gl, wt in ((goal, want_t), (goal2, want2)):
            o = arith.run_goal(w, gl, var='R', timeout=30)
            rec.case('ground', (gl,))
            if o[0] == 'val' and o[1] == wt:
                continue
            sig = {'kind': 'ground_constraint_differs_from_arithmetic' if o[0] == 'val' else o[0]}
            arith.panic_sig(sig, o)
            rec.violation(sig, {'goal': gl, 'expected': show(wt), 'observed': arith.show_obs(o)[:300],
                                'jobs': setup + [{'op': 'run', 'goal': gl + ' .', 'limit': 2, 'pred': 'runr'}]})
        if len(rec.samples) < 5 and i % 29 == 0:
            rec.sample({'goal': sysgoal[:300], 'solutions': len(sols), 'assignments': total})
