"""C24 Cyclic terms are processed correctly and always terminate.

Oracle: reference model on term graphs.  A random system of equations N_i = f(...N_j...) is solved
inside the machine by unification (occurs check off), which builds arbitrary sharing and back
edges through structures, list cells and strings with open tails.  A Python model of the same graph
(bisimulation for the infinite-tree reading, union-find for unifiability, reachability for
cyclicity / groundness / variables) predicts acyclic_term/1, ground/1, term_variables/2, ==/2,
compare/3 (as = or not =, and antisymmetry), =/2 and copy_term/2; every call must return (bounded
by a time-out) and acyclic_term/1 must leave all nodes unchanged."""
from .. import arith
from ..terms import mkint, mkatom, mklist, mkc, NIL, show

ID = 'C24'
LEVEL = 'exploration'
RULE = ('graphs of 1-6 equation nodes; node shapes: f(A,B), g(A), list cell [A|B], string "ab" with tail B, pair A-B; arguments drawn from '
        'nodes (back and forward edges, self loops), constants, shared variables; operations per graph: acyclic_term, ground, '
        'term_variables (count), copy_term followed by unification with the original, and for random node pairs ==, compare in both '
        'directions, unification (under \\+ \\+); acyclic_term/1 is followed by a comparison of every node with a copy taken before. '
        'distinct = distinct (graph, operation); non-trivial = graph with at least one cycle')
PARAMS = {'quick': {'n': 400}, 'thorough': {'n': 25000}}
MIN_EVAL = {'quick': 20000, 'thorough': 1200000}
STRATA = ['acyclic_term', 'ground', 'term_variables', 'copy_term', 'identical', 'compare', 'unify', 'unchanged-after-acyclic_term', 'cyclic-graph', 'with-strings']
ASSUMPTIONS = ['infinite-tree (rational tree) reading: two nodes are identical iff bisimilar; compare/3 is only required to say = exactly for '
               'identical terms and to be antisymmetric',
               'a call that does not return within 20 s counts as non-termination (bounded reformulation of "always terminate")']

CONSTS = ['a', 'b', '1', '[]']


def gen_graph(rng):
    n = rng.randint(1, 6)
    nvars = rng.randint(0, 2)
    nodes = []
    for i in range(n):
        shape = rng.choice(['f2', 'f2', 'g1', 'cons', 'cons', 'str', 'pair'])

        def arg():
            r = rng.random()
            if r < 0.6:
                return ('n', rng.randrange(n))
            if r < 0.8 and nvars:
                return ('v', rng.randrange(nvars))
            return ('c', rng.choice(CONSTS))
        if shape == 'g1':
            nodes.append(('g', [arg()]))
        elif shape == 'str':
            nodes.append(('str', [arg()]))
        else:
            nodes.append(({'f2': 'f', 'cons': '.', 'pair': '-'}[shape], [arg(), arg()]))
    return nodes, nvars


def ref_text(a):
    return 'N%d' % a[1] if a[0] == 'n' else 'V%d' % a[1] if a[0] == 'v' else a[1]


def equations(nodes):
    eqs = []
    for i, (f, args) in enumerate(nodes):
        if f == 'str':
            eqs.append('partial_string("ab", N%d, %s)' % (i, ref_text(args[0])))
        elif f == '.':
            eqs.append('N%d = [%s|%s]' % (i, ref_text(args[0]), ref_text(args[1])))
        elif f == '-':
            eqs.append('N%d = %s-%s' % (i, ref_text(args[0]), ref_text(args[1])))
        else:
            eqs.append('N%d = %s(%s)' % (i, f, ', '.join(ref_text(a) for a in args)))
    return ', '.join(eqs)


class Model:
    """expanded graph: strings become two list cells"""
    def __init__(self, nodes, nvars):
        self.g = {}       # key -> ('s', functor, [child keys]) | ('c', const) | ('v', id)
        for i, (f, args) in enumerate(nodes):
            ks = [self.key(a) for a in args]
            if f == 'str':
                self.g[('n', i)] = ('s', '.', [('c', 'a'), ('x', i)])
                self.g[('x', i)] = ('s', '.', [('c', 'b'), ks[0]])
            else:
                self.g[('n', i)] = ('s', f, ks)
        for c in CONSTS + ['a', 'b']:
            self.g[('c', c)] = ('c', c)
        for v in range(nvars):
            self.g[('v', v)] = ('v', v)

    def key(self, a):
        return (a[0], a[1])

    def reach(self, k):
        seen, order, stack = set(), [], [k]
        while stack:
            x = stack.pop()
            if x in seen:
                continue
            seen.add(x)
            order.append(x)
            d = self.g[x]
            if d[0] == 's':
                stack.extend(reversed(d[2]))
        return order

    def cyclic(self, k):
        color = {}

        def dfs(x):
            color[x] = 1
            d = self.g[x]
            if d[0] == 's':
                for c in d[2]:
                    if color.get(c) == 1:
                        return True
                    if c not in color and dfs(c):
                        return True
            color[x] = 2
            return False
        return dfs(k)

    def ground(self, k):
        return all(self.g[x][0] != 'v' for x in self.reach(k))

    def nvars(self, k):
        return len({x for x in self.reach(k) if self.g[x][0] == 'v'})

    def bisimilar(self, a, b):
        assumed = set()
        stack = [(a, b)]
        while stack:
            x, y = stack.pop()
            if x == y or (x, y) in assumed:
                continue
            dx, dy = self.g[x], self.g[y]
            if dx[0] != dy[0]:
                return False
            if dx[0] in ('c', 'v'):
                if dx != dy:
                    return False
                continue
            if dx[1] != dy[1] or len(dx[2]) != len(dy[2]):
                return False
            assumed.add((x, y))
            stack.extend(zip(dx[2], dy[2]))
        return True

    def unifiable(self, a, b):
        parent = {}

        def find(x):
            while parent.get(x, x) != x:
                parent[x] = parent.get(parent[x], parent[x])
                x = parent[x]
            return x
        stack = [(a, b)]
        while stack:
            x, y = stack.pop()
            x, y = find(x), find(y)
            if x == y:
                continue
            dx, dy = self.g[x], self.g[y]
            if dx[0] == 'v':
                parent[x] = y
                continue
            if dy[0] == 'v':
                parent[y] = x
                continue
            if dx[0] != dy[0]:
                return False
            if dx[0] == 'c':
                if dx != dy:
                    return False
                continue
            if dx[1] != dy[1] or len(dx[2]) != len(dy[2]):
                return False
            parent[x] = y
            stack.extend(zip(dx[2], dy[2]))
        return True


def shard(ctx):
    rec = ctx.rec
    rng = ctx.rng
    w = ctx.worker()
    setup_q = 'use_module(library(lists)), use_module(library(iso_ext)).'
    setup = [{'op': 'raw', 'query': setup_q}]
    w.setup(setup)
    for i in range(ctx.params['n']):
        nodes, nvars = gen_graph(rng)
        m = Model(nodes, nvars)
        eqs = equations(nodes)
        n = len(nodes)
        anycyc = any(m.cyclic(('n', k)) for k in range(n))
        # character lists are stored as compact strings too: a list cell whose head is a one-character atom counts as a string
        has_str = any(f == 'str' or (f == '.' and args[0][0] == 'c' and args[0][1] in ('a', 'b')) for f, args in nodes)
        cases = []
        for k in range(n):
            key = ('n', k)
            cases.append(('acyclic_term', '( acyclic_term(N%d) -> R = yes ; R = no )' % k, 'no' if m.cyclic(key) else 'yes'))
            cases.append(('ground', '( ground(N%d) -> R = yes ; R = no )' % k, 'yes' if m.ground(key) else 'no'))
            cases.append(('term_variables', 'term_variables(N%d, Vs), length(Vs, R)' % k, str(m.nvars(key))))
            cases.append(('copy_term', 'copy_term(N%d, C), ( \\+ \\+ C = N%d -> R = yes ; R = no )' % (k, k), 'yes'))
        allnodes = 't(%s)' % ', '.join('N%d' % k for k in range(n))
        cases.append(('unchanged-after-acyclic_term', 'copy_term(%s, Before), ( acyclic_term(N%d) -> true ; true ), ( \\+ \\+ Before = %s -> R = yes ; R = no )'
                      % (allnodes, rng.randrange(n), allnodes), 'yes'))
        for _ in range(4):
            a, b = rng.randrange(n), rng.randrange(n)
            ka, kb = ('n', a), ('n', b)
            same = m.bisimilar(ka, kb)
            cases.append(('identical', '( N%d == N%d -> R = yes ; R = no )' % (a, b), 'yes' if same else 'no'))
            cases.append(('compare', 'compare(O1, N%d, N%d), compare(O2, N%d, N%d), R = O1/O2' % (a, b, b, a), 'cmp:' + ('=' if same else '#')))
            cases.append(('unify', '( \\+ \\+ N%d = N%d -> R = yes ; R = no )' % (a, b), 'yes' if m.unifiable(ka, kb) else 'no'))
        for st, og, want in cases:
            goal = eqs + ', ' + og
            o = arith.run_goal(w, goal, var='R', timeout=20)
            rec.case(st, (goal,), nontrivial=anycyc)
            if anycyc:
                rec.case('cyclic-graph', (goal, 'c'))
            if has_str:
                rec.case('with-strings', (goal, 's'))
            why = None
            if o[0] == 'timeout':
                why = 'does_not_terminate_within_20s'
            elif o[0] != 'val':
                why = 'run_' + o[0]
            elif want.startswith('cmp:'):
                t = o[1]
                o1, o2 = (t[2][0][1], t[2][1][1]) if t[0] == 'c' else ('?', '?')
                if want == 'cmp:=':
                    if (o1, o2) != ('=', '='):
                        why = 'compare_of_identical_terms_not_equal'
                elif not ((o1, o2) in (('<', '>'), ('>', '<'))):
                    why = 'compare_not_antisymmetric_or_equal_for_different_terms'
            elif show(o[1]) != want:
                why = 'wrong_answer'
            if why is None:
                continue
            sig = {'kind': why, 'op': st, 'cyclic': anycyc, 'strings': has_str}
            arith.panic_sig(sig, o)
            rec.violation(sig, {'goal': goal, 'expected': want, 'observed': arith.show_obs(o)[:300], 'jobs': setup + [{'op': 'run', 'goal': goal + ' .', 'limit': 2, 'pred': 'runr'}]})
        if len(rec.samples) < 5 and anycyc and i % 61 == 0:
            rec.sample({'equations': eqs, 'cyclic_nodes': [k for k in range(n) if m.cyclic(('n', k))]})
