"""C05 Equal integers behave identically regardless of how they were produced.

Oracle: differential -- for an integer n, every producer of n (literal, text conversion,
arithmetic through a bignum, length/2, atom_length/2, succ/2, findall copy, database
round trip ...) must make every integer-consuming context behave exactly as the literal."""
from .. import arith
from ..terms import mkint, to_text, show, rename_canonical
from ..gen import BOUNDARY_INTS

ID = 'C05'
LEVEL = 'exploration'
RULE = ('matrix integer value x producer x consumer: values 0, +-1, 2, 5, 97, 255, 2^31+-1, 2^55-1, 2^55, -2^55, -2^55-1, 2^63, 2^64 '
        '(plus random values in thorough); 14 producers (literal, number_codes, read_term, N is n+0, through 2^60/2^64/10^30 and '
        'back, multiply/divide by 2^70, length/2, atom_length/2, succ/2, findall copy, assert/retrieve, arg/3, boxed then copied); '
        '30 consumers (=, ==, compare/3, sort/2, keysort/2, functor/3 arity, arg/3 index, length/2, atom_length/2, sub_atom/5, '
        'char_code/2, number_codes/2, between/3, nth0/nth1, succ/2, format ~d, assert then call with literal, retract, '
        'first-argument clause selection static and dynamic, =:=, integer/1, copy_term, bb_put/bb_get, list membership, '
        'msort-like ordering, number_chars, unification inside a structure); every producer must give the literal\'s observation. '
        'distinct = distinct (value, producer, consumer); non-trivial = producer is not the literal')
PARAMS = {'quick': {'extra': 0}, 'thorough': {'extra': 60}}
MIN_EVAL = {'quick': 4000, 'thorough': 40000}
SHARDS = {'quick': 16, 'thorough': 16}
ASSUMPTIONS = ['consumers are used only with values inside their documented domain',
               'only agreement with the literal producer is required']

VALUES = [0, 1, -1, 2, 5, 97, 255, 2 ** 31 - 1, 2 ** 31 + 1, 2 ** 55 - 1, 2 ** 55, -(2 ** 55), -(2 ** 55) - 1, 2 ** 63, 2 ** 64, -(2 ** 64)]

SETUP = """
:- dynamic(c05f/1).
:- dynamic(c05g/1).
:- dynamic(c05d/2).
:- dynamic(c05h/2).
c05s(0, v0). c05s(1, v1). c05s(-1, vm1). c05s(2, v2). c05s(5, v5). c05s(97, v97). c05s(255, v255).
c05s(2147483647, a). c05s(2147483649, b). c05s(36028797018963967, c). c05s(36028797018963968, d).
c05s(-36028797018963968, e). c05s(-36028797018963969, f). c05s(9223372036854775808, g). c05s(18446744073709551616, h).
c05s(-18446744073709551616, i).
c05d(0, v0). c05d(1, v1). c05d(-1, vm1). c05d(2, v2). c05d(5, v5). c05d(97, v97). c05d(255, v255).
c05d(2147483647, a). c05d(2147483649, b). c05d(36028797018963967, c). c05d(36028797018963968, d).
c05d(-36028797018963968, e). c05d(-36028797018963969, f). c05d(9223372036854775808, g). c05d(18446744073709551616, h).
c05d(-18446744073709551616, i).
"""


def producers(n):
    L = str(n) if n >= 0 else '(%d)' % n
    P = {
        'literal': 'N = %s' % L,
        'number_codes': 'atom_codes(\'%d\', Cs0), number_codes(N, Cs0)' % n,
        'read_term': 'read_term_from_chars("%d .", N, [])' % n,
        'is+0': 'N is %s + 0' % L,
        'through-2^60': 'N is 1152921504606846976 - 1152921504606846976 + %s' % L,
        'through-2^64': 'N is 18446744073709551616 + %s - 18446744073709551616' % L,
        'through-10^30': 'N is (1000000000000000000000000000000 + %s) - 1000000000000000000000000000000' % L,
        'mul-div-2^70': 'N is (%s * 1180591620717411303424) // 1180591620717411303424' % L,
        'findall-copy': 'findall(X0, X0 = %s, [N])' % L,
        'assert-retrieve': 'retractall(c05g(_)), assertz(c05g(%s)), c05g(N)' % L,
        'arg': 'arg(1, f(%s), N)' % L,
        'boxed-then-copied': 'N0 is 1152921504606846976 - 1152921504606846976 + %s, copy_term(N0, N)' % L,
        'boxed-then-asserted': 'N0 is 18446744073709551616 + %s - 18446744073709551616, retractall(c05g(_)), assertz(c05g(N0)), c05g(N)' % L,
        'boxed-in-findall': 'findall(X0, X0 is 1152921504606846976 - 1152921504606846976 + %s, [N])' % L,
    }
    if 0 <= n <= 60:
        P['length'] = 'length([%s], N)' % ','.join(['a'] * n)
        P['atom_length'] = "atom_length('%s', N)" % ('x' * n)
    if n >= 1:
        P['succ'] = 'succ(%d, N)' % (n - 1)
    return P


def consumers(n):
    L = str(n) if n >= 0 else '(%d)' % n
    C = {
        'unify': '( N = %s -> R = y ; R = n )' % L,
        'unify-in-struct': '( f(N, a) = f(%s, a) -> R = y ; R = n )' % L,
        'eq': '( N == %s -> R = y ; R = n )' % L,
        'compare': 'compare(R, N, %s)' % L,
        'compare-next': 'compare(R, N, %d)' % (n + 1),
        'compare-prev': 'compare(R, %d, N)' % (n - 1),
        'order-lt': '( N @< %d -> R = y ; R = n )' % (n + 1),
        'sort': 'sort([%d, N, %d, %s], R)' % (n + 1, n - 1, L),
        'keysort': 'keysort([N-a, %s-b, %d-c], R)' % (L, n - 1),
        'member': '( memberchk(N, [%d, %s, %d]) -> R = y ; R = n )' % (n - 1, L, n + 1),
        'arith-eq': '( N =:= %s -> R = y ; R = n )' % L,
        'integer': '( integer(N) -> R = y ; R = n )',
        'copy': 'copy_term(N, R)',
        'bb': 'bb_put(c05k, N), bb_get(c05k, R)',
        'number_codes': 'number_codes(N, R)',
        'number_chars': 'number_chars(N, R)',
        'between': 'findall(X, between(N, N, X), R)',
        'format-d': 'phrase(format_("~d", [N]), R)',
        'assert-call-literal': 'retractall(c05f(_)), assertz(c05f(N)), ( c05f(%s) -> R = y ; R = n )' % L,
        'retract-literal': 'retractall(c05f(_)), assertz(c05f(%s)), ( retract(c05f(N)) -> R = y ; R = n )' % L,
        # the boxed value becomes the first argument of a clause added to a dynamic predicate that already has clauses
        'assert-among-others-call-literal': ('retractall(c05h(_, _)), assertz(c05h(-7777, a)), assertz(c05h(foo, b)), assertz(c05h(N, c)), '
                                             'assertz(c05h(bar, d)), findall(V, c05h(%s, V), R)' % L),
        'assert-among-others-clause-literal': ('retractall(c05h(_, _)), assertz(c05h(-7777, a)), assertz(c05h(g(1), b)), assertz(c05h(N, c)), '
                                               'findall(V, clause(c05h(%s, V), true), R)' % L),
        'assert-among-others-retract-literal': ('retractall(c05h(_, _)), assertz(c05h(4242, a)), assertz(c05h(N, c)), assertz(c05h("s", d)), '
                                                '( retract(c05h(%s, V)) -> R = V ; R = none )' % L),
        'clause-static': '( c05s(N, R) -> true ; R = none )',
        'clause-dynamic': '( c05d(N, R) -> true ; R = none )',
    }
    if 0 <= n <= 255:
        C['functor-arity'] = 'functor(R, f, N)'
    if 1 <= n <= 5:
        C['arg-index'] = 'arg(N, f(a,b,c,d,e), R)'
        C['nth1'] = 'nth1(N, [a,b,c,d,e], R)'
    if 0 <= n <= 5:
        C['nth0'] = 'nth0(N, [a,b,c,d,e,f], R)'
        C['sub_atom'] = 'sub_atom(abcdefgh, N, 1, _, R)'
    if 0 <= n <= 100:
        C['length'] = 'length(R, N)'
        C['atom_length-check'] = "( atom_length('%s', N) -> R = y ; R = n )" % ('y' * n)
    if 32 <= n <= 0x10FFFF and not (0xD800 <= n <= 0xDFFF):
        C['char_code'] = 'char_code(R, N)'
    if n >= 0:
        C['succ'] = 'succ(N, R)'
    if n >= 1:
        C['succ-back'] = 'succ(R, N)'
    return C


def canon(o):
    if o[0] == 'val':
        return ('val', rename_canonical(o[1]))
    return o


def shard(ctx):
    rec = ctx.rec
    rng = ctx.rng
    w = ctx.worker()
    w.use_modules(['lists', 'charsio', 'format', 'between', 'iso_ext'], extra_jobs=[{'op': 'load', 'module': 'user', 'text': SETUP}])
    values = list(VALUES)
    for _ in range(ctx.params.get('extra', 0)):
        values.append(rng.choice(BOUNDARY_INTS + [rng.randint(-300, 300), rng.getrandbits(rng.randint(50, 70))]))
    # the matrix is split over shards by (value, consumer) index
    cells = []
    for n in values:
        for cname in sorted(consumers(n)):
            cells.append((n, cname))
    for ci, (n, cname) in enumerate(cells):
        if ci % ctx.nshards != ctx.shard:
            continue
        cgoal = consumers(n)[cname]
        prods = producers(n)
        base = canon(arith.run_goal(w, '%s, %s' % (prods['literal'], cgoal), var='R'))
        rec.case('consumer:' + cname, (n, 'literal', cname), nontrivial=False)
        if base[0] != 'val':
            # every consumer is used inside its domain: the literal must give a value
            rec.info['literal_gave_no_value'] += 1
            rec.sets['literal_problems'].add((n, cname, arith.show_obs(base)[:100]))
        for pname, pgoal in prods.items():
            if pname == 'literal':
                continue
            goal = '%s, %s' % (pgoal, cgoal)
            o = canon(arith.run_goal(w, goal, var='R'))
            rec.case('producer:' + pname, (n, pname, cname))
            rec.strata['consumer:' + cname] += 1
            rec.info['cells_observed'] += 1
            if o[0] == 'timeout':
                rec.inconc('timeout')
                continue
            if o == base:
                if len(rec.samples) < 5 and ci % 37 == 0 and pname.startswith('through'):
                    rec.sample({'n': n, 'producer': pgoal, 'consumer': cgoal, 'observation': arith.show_obs(o)})
                continue
            sig = {'kind': 'differs_from_literal', 'consumer': cname, 'producer': pname}
            arith.panic_sig(sig, o)
            rec.violation(sig, {'n': n, 'goal': goal, 'literal_goal': '%s, %s' % (prods['literal'], cgoal),
                                'observed': arith.show_obs(o), 'with_literal': arith.show_obs(base),
                                'jobs': [{'op': 'raw', 'query': 'use_module(library(lists)), use_module(library(charsio)), use_module(library(format)), use_module(library(between)), use_module(library(iso_ext)).'},
                                         {'op': 'load', 'module': 'user', 'text': SETUP},
                                         {'op': 'run', 'goal': '%s, %s .' % (prods['literal'], cgoal), 'limit': 2},
                                         {'op': 'run', 'goal': goal + ' .', 'limit': 2}]})


def minima(rec, tier):
    if rec.info.get('literal_gave_no_value'):
        return ['%d consumer cells gave no value even for the literal: %s' % (rec.info['literal_gave_no_value'], sorted(rec.sets['literal_problems'])[:3])]
    return []
