"""C54 Reified conditionals are declaratively sound.

Oracle: differential against the explicit disjunction.  A condition built from (=)/3, dif/3, (',')/3
and (;)/3 is translated by the check into its defining disjunction over =/2 and dif/2; if_/3 (also
nested) and the list predicates tfilter/3, tpartition/4, memberd_t/3, tmember/2 are run next to
that reference; all remaining variables are then labelled over a small domain, so that both sides
yield ground answer lists, which must be equal as multisets."""
from .. import arith
from ..terms import mkint, mkatom, mklist, mkc, NIL, show

ID = 'C54'
LEVEL = 'exploration'
RULE = ('conditions of depth <= 3 over X = Y, dif(X, Y), conjunction and disjunction with operands from the variables X Y Z and the '
        'constants a b c f(a) f(X); every subset of the variables bound beforehand to a domain value; if_/3 with then/else results and '
        'nested if_/3; tfilter/3, tpartition/4, memberd_t/3, tmember/2 on lists of length 0-4 over variables and constants; labelling '
        'domain a b c f(a) f(b). distinct = distinct goals; non-trivial = at least one variable free when the condition is evaluated')
PARAMS = {'quick': {'n': 500}, 'thorough': {'n': 30000}}
MIN_EVAL = {'quick': 7000, 'thorough': 400000}
STRATA = ['eq', 'dif', 'and', 'or', 'nested-if', 'tfilter', 'tpartition', 'memberd_t', 'tmember', 'all-bound', 'some-free']
ASSUMPTIONS = ['answers are compared after labelling every variable over the domain a b c f(a) f(b), as sorted lists with multiplicity']

HELPERS = r"""
c54_dom(a). c54_dom(b). c54_dom(c). c54_dom(f(a)). c54_dom(f(b)).
c54_label([]).
c54_label([V|Vs]) :- c54_dom(V), c54_label(Vs).
c54_filter_eq(_, [], []).
c54_filter_eq(K, [E|Es], Fs0) :- ( E = K, Fs0 = [E|Fs] ; dif(E, K), Fs0 = Fs ), c54_filter_eq(K, Es, Fs).
c54_part_eq(_, [], [], []).
c54_part_eq(K, [E|Es], Ts0, Fs0) :- ( E = K, Ts0 = [E|Ts], Fs0 = Fs ; dif(E, K), Ts0 = Ts, Fs0 = [E|Fs] ), c54_part_eq(K, Es, Ts, Fs).
c54_memberd(_, [], false).
c54_memberd(X, [E|Es], T) :- ( X = E, T = true ; dif(X, E), c54_memberd(X, Es, T) ).
"""

VARS = ['X', 'Y', 'Z']
CONSTS = ['a', 'b', 'c', 'f(a)']


def operand(rng):
    r = rng.random()
    if r < 0.6:
        return rng.choice(VARS)
    if r < 0.9:
        return rng.choice(CONSTS)
    return 'f(%s)' % rng.choice(VARS)


def cond(rng, d):
    """-> (reified text, true-goal text, false-goal text, kind)"""
    r = rng.random()
    if d <= 0 or r < 0.45:
        a, b = operand(rng), operand(rng)
        if rng.random() < 0.6:
            return '%s = %s' % (a, b), '%s = %s' % (a, b), 'dif(%s, %s)' % (a, b), 'eq'
        return 'dif(%s, %s)' % (a, b), 'dif(%s, %s)' % (a, b), '%s = %s' % (a, b), 'dif'
    a = cond(rng, d - 1)
    b = cond(rng, d - 1)
    if r < 0.72:
        return ('( %s, %s )' % (a[0], b[0]), '( %s, %s )' % (a[1], b[1]), '( %s ; %s, %s )' % (a[2], a[1], b[2]), 'and')
    return ('( %s ; %s )' % (a[0], b[0]), '( %s ; %s, %s )' % (a[1], a[2], b[1]), '( %s, %s )' % (a[2], b[2]), 'or')


def shard(ctx):
    rec = ctx.rec
    rng = ctx.rng
    w = ctx.worker()
    setup_q = 'use_module(library(lists)), use_module(library(reif)), use_module(library(dif)).'
    setup = [{'op': 'raw', 'query': setup_q}, {'op': 'load', 'module': 'user', 'text': HELPERS}]
    w.setup(setup)
    for i in range(ctx.params['n']):
        pre = []
        for v in VARS:
            if rng.random() < 0.35:
                pre.append('%s = %s' % (v, rng.choice(CONSTS + ['f(b)'])))
        pre_t = ''.join(p + ', ' for p in pre)
        kind = rng.choice(['if', 'if', 'if', 'nested', 'tfilter', 'tpartition', 'memberd_t', 'tmember'])
        if kind in ('if', 'nested'):
            c = cond(rng, rng.choice([0, 1, 2, 3]))
            if kind == 'if':
                lhs = 'if_(%s, R0 = then, R0 = else)' % c[0]
                rhs = '( %s, R0 = then ; %s, R0 = else )' % (c[1], c[2])
                st = c[3]
            else:
                c2 = cond(rng, 1)
                lhs = 'if_(%s, if_(%s, R0 = tt, R0 = tf), R0 = else)' % (c[0], c2[0])
                rhs = '( %s, ( %s, R0 = tt ; %s, R0 = tf ) ; %s, R0 = else )' % (c[1], c2[1], c2[2], c[2])
                st = 'nested-if'
            tmpl = 't(R0, X, Y, Z)'
        else:
            items = [operand(rng) for _ in range(rng.randint(0, 4))]
            lst = '[' + ', '.join(items) + ']'
            k = operand(rng)
            if kind == 'tfilter':
                lhs, rhs = 'tfilter(=(%s), %s, R0)' % (k, lst), 'c54_filter_eq(%s, %s, R0)' % (k, lst)
            elif kind == 'tpartition':
                lhs, rhs = 'tpartition(=(%s), %s, Ts, Fs), R0 = Ts-Fs' % (k, lst), 'c54_part_eq(%s, %s, Ts, Fs), R0 = Ts-Fs' % (k, lst)
            elif kind == 'memberd_t':
                lhs, rhs = 'memberd_t(%s, %s, R0)' % (k, lst), 'c54_memberd(%s, %s, R0)' % (k, lst)
            else:
                lhs, rhs = 'tmember(=(%s), %s), R0 = yes' % (k, lst), 'c54_memberd(%s, %s, true), R0 = yes' % (k, lst)
            st = kind
            tmpl = 't(R0, X, Y, Z)'
        goal = ('findall(%s, ( %s%s, c54_label([X, Y, Z]) ), L1), findall(%s, ( %s%s, c54_label([X, Y, Z]) ), L2), R = r(L1, L2)'
                % (tmpl, pre_t, lhs, tmpl, pre_t, rhs))
        o = arith.run_goal(w, goal, var='R', timeout=60)
        free = len(pre) < 3
        rec.case(st, (goal,), nontrivial=free)
        rec.case('some-free' if free else 'all-bound', (goal, 'f'))
        if o[0] == 'timeout':
            rec.inconc('timeout')
            continue
        if o[0] == 'val' and o[1][0] == 'c' and o[1][1] == 'r':
            l1 = sorted(show(x) for x in (o[1][2][0][1] if o[1][2][0] != NIL else []))
            l2 = sorted(show(x) for x in (o[1][2][1][1] if o[1][2][1] != NIL else []))
            if l1 == l2:
                rec.info['answers_compared'] += len(l1)
                if len(rec.samples) < 5 and i % 71 == 0:
                    rec.sample({'reified': lhs[:200], 'explicit': rhs[:200], 'answers': len(l1)})
                continue
            o = ('val', mkc('differ', mklist([mkatom(x) for x in l1 if x not in l2][:6]), mklist([mkatom(x) for x in l2 if x not in l1][:6])))
        sig = {'kind': 'answers_differ_from_explicit_disjunction' if o[0] == 'val' else o[0], 'construct': st}
        arith.panic_sig(sig, o)
        rec.violation(sig, {'reified': pre_t + lhs, 'explicit': pre_t + rhs, 'observed': arith.show_obs(o)[:800],
                            'jobs': setup + [{'op': 'run', 'goal': goal + ' .', 'limit': 2, 'pred': 'runr'}]})
