"""C50 In-memory reading and writing match stream reading and writing.

Oracle: differential -- the same text read with read_term_from_chars/3 / read_from_chars/2
and with read_term/3 from a file stream must give variant terms (or errors of the same
class); the same term written with write_term_to_chars/3 and with write_term/3 to a file
stream (same options) must give byte-identical text."""
from .. import arith
from ..terms import (mkint, mkc, mkatom, mklist, NIL, show, rename_canonical, dq_string, to_text)
from . import c15, c17

ID = 'C50'
LEVEL = 'exploration'
RULE = ('writing: terms from the printed-term corpus (tricky atoms, operators, numbers, strings, variables) written with option '
        'lists drawn from quoted(true|false), ignore_ops(true|false), numbervars(true|false), max_depth(0|2|3), '
        'variable_names([..]) through write_term_to_chars/3 and through write_term/3 on a file stream; reading: valid clause texts '
        'and damaged ones (mutation corpus of C17), multi-clause texts, multi-byte text, empty/whitespace-only text, read with '
        'read_term_from_chars/3 (options variables/variable_names/singletons) vs read_term/3 on a file holding the same text. '
        'distinct = distinct (text or term, options); non-trivial = all')
PARAMS = {'quick': {'n': 2500}, 'thorough': {'n': 120000}}
MIN_EVAL = {'quick': 30000, 'thorough': 1500000}
STRATA = ['write', 'read-valid', 'read-damaged', 'read-multi-clause', 'read-empty']
ASSUMPTIONS = ['only agreement between the two paths is asserted (their correctness is C15/C17/C45)',
               'for syntax errors only the error class (syntax_error) is compared']


def write_opts(rng):
    opts = []
    if rng.random() < 0.7:
        opts.append('quoted(%s)' % rng.choice(['true', 'false']))
    if rng.random() < 0.4:
        opts.append('ignore_ops(%s)' % rng.choice(['true', 'false']))
    if rng.random() < 0.3:
        opts.append('numbervars(%s)' % rng.choice(['true', 'false']))
    if rng.random() < 0.3:
        opts.append('max_depth(%d)' % rng.choice([0, 2, 3, 10]))
    # every variable gets a name: write_term_to_chars/3 deliberately invents names (A, B, ...) for unnamed
    # variables while a stream prints _N, which is a documented design difference, not a discrepancy
    opts.append("variable_names(['Xa'=_G0, 'Yb'=_G1, 'Zc'=_G2])")
    rng.shuffle(opts)
    return '[%s]' % ', '.join(opts)


def chars_of(t):
    if t == NIL:
        return ''
    if t[0] == 'l' and t[2] == NIL and all(x[0] == 'a' for x in t[1]):
        return ''.join(x[1] for x in t[1])
    return None


def shard(ctx):
    rec = ctx.rec
    rng = ctx.rng
    w = ctx.worker()
    w.use_modules(['lists', 'charsio'])
    n = ctx.params['n']
    fpath = ctx.scratch_dir() + '/c50.txt'
    seen = set()
    for i in range(n):
        k = i % 5
        if k in (0, 1):
            t = c15.term(rng, rng.choice([1, 2, 3, 4]))
            if rng.random() < 0.2:
                t = mkc('f', t, mkc('$VAR', mkint(rng.randint(0, 30))), mkc('$VAR', mkatom('x')))
            tt = to_text(t)
            opts = write_opts(rng)
            key = ('w', tt, opts)
            if key in seen:
                continue
            seen.add(key)
            goal = ("T = %s, write_term_to_chars(T, %s, Cs), open('%s', write, S), write_term(S, T, %s), close(S), "
                    "open('%s', read, S2), get_n_chars(S2, _, Fs), close(S2), R = r(Cs, Fs)") % (tt, opts, fpath, opts, fpath)
            o = arith.run_goal(w, goal, var='R', timeout=30)
            rec.case('write', key)
            rec.info['pairs_observed'] += 1
            if o[0] == 'timeout':
                rec.inconc('timeout')
                continue
            bad = None
            a = b = None
            if o[0] == 'val' and o[1][0] == 'c' and o[1][1] == 'r':
                a, b = chars_of(o[1][2][0]), chars_of(o[1][2][1])
                if a is None or b is None or a != b:
                    bad = 'written_text_differs'
            elif o[0] == 'err':
                # an option error must be raised by both: run them separately
                g1 = 'T = %s, catch((write_term_to_chars(T, %s, _), R = ok), error(E, _), R = E)' % (tt, opts)
                g2 = "T = %s, open('%s', write, S), catch((write_term(S, T, %s), R = ok), error(E, _), R = E), close(S)" % (tt, fpath, opts)
                o1, o2 = arith.run_goal(w, g1, var='R'), arith.run_goal(w, g2, var='R')
                if o1 != o2:
                    bad = 'error_behaviour_differs'
            else:
                bad = o[0] if o[0] != 'val' else 'garbled'
            if bad:
                sig = {'kind': bad, 'stratum': 'write', 'opts': opts}
                arith.panic_sig(sig, o)
                rec.violation(sig, {'term': tt, 'opts': opts, 'chars': a, 'stream': b, 'observed': arith.show_obs(o)[:400],
                                    'jobs': [{'op': 'raw', 'query': 'use_module(library(charsio)).'}, {'op': 'run', 'goal': goal + ' .', 'limit': 2, 'pred': 'runr'}]})
            elif len(rec.samples) < 4 and i % 200 == 0:
                rec.sample({'term': tt[:150], 'opts': opts, 'text_both_paths': a})
            continue
        # reading
        base = to_text(c15.term(rng, rng.choice([1, 2, 3])))
        if k == 2:
            st, text = 'read-valid', base + ' .'
        elif k == 3:
            _, damaged, _ = c17.mutate(rng, base, i)
            st, text = 'read-damaged', damaged + ' .'
            if len(text) > 3000:
                continue
        else:
            if rng.random() < 0.5:
                st, text = 'read-multi-clause', base + ' . ' + to_text(c15.term(rng, 1)) + ' . third .'
            else:
                st, text = 'read-empty', rng.choice(['', ' ', '\n', '% only a comment\n', '/* c */', ' \t\n '])
        ropts = rng.choice(['[]', '[variable_names(Vs)]', '[variables(Vs)]', '[singletons(Vs)]', '[variable_names(Vs), variables(Ws)]'])
        key = ('r', text, ropts)
        if key in seen or '\x00' in text:
            continue
        seen.add(key)
        with open(fpath, 'w', encoding='utf-8', errors='surrogatepass') as f:
            f.write(text)
        extra = ', Ws = none' if 'Ws' not in ropts else ''
        extra += ', Vs = none' if 'Vs' not in ropts else ''
        g1 = 'catch((read_term_from_chars(%s, T, %s), R = t(T, Vs, Ws)), error(E, _), R = raised(E))%s' % (dq_string(text), ropts, '')
        g2 = "open('%s', read, S), catch((read_term(S, T, %s), R = t(T, Vs, Ws)), error(E, _), R = raised(E)), close(S)" % (fpath, ropts)
        if 'Ws' not in ropts:
            g1, g2 = 'Ws = none, ' + g1, 'Ws = none, ' + g2
        if 'Vs' not in ropts:
            g1, g2 = 'Vs = none, ' + g1, 'Vs = none, ' + g2
        o1 = arith.run_goal(w, g1, var='R', timeout=30)
        o2 = arith.run_goal(w, g2, var='R', timeout=30)
        rec.case(st, key)
        rec.info['pairs_observed'] += 1
        if 'timeout' in (o1[0], o2[0]):
            rec.inconc('timeout')
            continue

        def norm(o):
            if o[0] == 'val':
                t = o[1]
                if t[0] == 'c' and t[1] == 'raised':
                    f = t[2][0]
                    return ('raised', f[1] if f[0] in 'ca' else repr(f))
                return ('val', rename_canonical(t))
            return (o[0], None)
        if norm(o1) == norm(o2):
            if len(rec.samples) < 8 and i % 300 == 3:
                rec.sample({'text': text[:150], 'opts': ropts, 'both_paths': arith.show_obs(o1)[:200]})
            continue
        sig = {'kind': 'read_result_differs', 'stratum': st, 'chars': norm(o1)[0], 'stream': norm(o2)[0]}
        if norm(o1)[0] == 'raised' or norm(o2)[0] == 'raised':
            sig['chars_err'] = str(norm(o1)[1])[:40] if norm(o1)[0] == 'raised' else None
            sig['stream_err'] = str(norm(o2)[1])[:40] if norm(o2)[0] == 'raised' else None
        arith.panic_sig(sig, o1 if o1[0] == 'panic' else o2)
        rec.violation(sig, {'text': text, 'opts': ropts, 'chars_path': arith.show_obs(o1)[:400], 'stream_path': arith.show_obs(o2)[:400],
                            'jobs': [{'op': 'raw', 'query': 'use_module(library(charsio)).'}, {'op': 'run', 'goal': g1 + ' .', 'limit': 2, 'pred': 'runr'}]})
