"""C06 Clause selection returns exactly the clauses whose heads unify.

Oracle: reference model (scan all clauses in textual order, keep those whose head unifies
with the call; Python unification) + differential against a de-indexed twin of the same
predicate (every head argument replaced by a fresh variable and an explicit =/2 goal)."""
from .. import refterm, arith
from ..terms import (mkint, mkfloat, mkc, mkatom, mklist, mkvar, mkstr, mkrat, NIL, to_text, show, rename_canonical)
from ..gen import rand_int, rand_float
from ..worker import WorkerDied, WorkerTimeout

ID = 'C06'
LEVEL = 'exploration'
RULE = ('predicates of 1-10 clauses, arity 1-3, whose arguments mix atoms ([] {} chars, long), small integers, bignums, floats '
        '(incl. 0.0/-0.0), strings, lists, partial lists, structures (same name different arity) and variables (which split the '
        'indexed spans; some predicates have variables in argument 1 and constants in argument 2/3); static (consulted), dynamic '
        '(declared + consulted) and dynamic built by assertz/asserta with later retracts; each is called with every constant that '
        'occurs, near misses, unbound arguments and run-time computed values (integers through a bignum, recomputed bignums, '
        'floats from arithmetic, strings from atom_chars, lists from append). The ordered list of matching clause '
        'numbers must equal the reference and the de-indexed twin. distinct = distinct (predicate text, call); non-trivial = all')
PARAMS = {'quick': {'n': 260}, 'thorough': {'n': 12000}}
MIN_EVAL = {'quick': 30000, 'thorough': 1500000}
STRATA = ['static', 'dynamic-consulted', 'dynamic-asserted', 'call:literal', 'call:computed', 'call:unbound', 'key:atom', 'key:int',
          'key:bignum', 'key:float', 'key:string', 'key:list', 'key:struct', 'key:var']
ASSUMPTIONS = ['Python unification of finite terms is the definition of "head unifies with call"',
               'only answer sequences are compared, not determinism']

ATOMS = ['a', 'b', 'c', '[]', '{}', 'foo', 'abcdefgh', 'x', 'é', '+']
STRUCTS = [('f', 1), ('f', 2), ('g', 1), ('-', 2), ('point', 2)]


def key_term(rng, allow_var=True):
    r = rng.random()
    if r < 0.22:
        return 'atom', mkatom(rng.choice(ATOMS))
    if r < 0.42:
        return 'int', mkint(rng.choice([0, 1, 2, 3, -1, 5, 97, (1 << 55) - 1, -(1 << 55)]))
    if r < 0.52:
        return 'bignum', mkint(rng.choice([1 << 55, 1 << 63, 1 << 64, 10 ** 20, -(10 ** 20), (1 << 64) + 1]))
    if r < 0.6:
        return 'float', mkfloat(rng.choice([0.0, -0.0, 1.0, 1.5, 2.5, -1.0, 1e10, 0.1]))
    if r < 0.68:
        return 'string', mkstr(rng.choice(['a', 'ab', 'abc', 'abcdefgh', '']))
    if r < 0.76:
        items = [mkint(rng.randint(0, 2)) for _ in range(rng.randint(1, 3))]
        return 'list', mklist(items, mkvar('T%d' % rng.randint(0, 1)) if rng.random() < 0.3 else NIL)
    if r < 0.88 or not allow_var:
        n, a = rng.choice(STRUCTS)
        return 'struct', mkc(n, *[rng.choice([mkint(rng.randint(0, 2)), mkatom(rng.choice(ATOMS[:3])), mkvar('S%d' % rng.randint(0, 2))]) for _ in range(a)])
    return 'var', mkvar('V%d' % rng.randint(0, 1))


def gen_pred(rng):
    arity = rng.choice([1, 1, 2, 2, 3])
    nclauses = rng.randint(1, 10)
    pool = [key_term(rng) for _ in range(rng.randint(2, 5))]
    var_first = rng.random() < 0.25     # variables in argument 1, constants later: moves the indexed argument
    clauses = []
    kinds = set()
    for _ in range(nclauses):
        args = []
        for j in range(arity):
            if j == 0 and var_first and rng.random() < 0.8:
                k, t = 'var', mkvar('V0')
            elif rng.random() < 0.75:
                k, t = rng.choice(pool)
            else:
                k, t = key_term(rng)
            if j == 0 or (var_first and j == 1):
                kinds.add(k)
            args.append(t)
        clauses.append(args)
    return arity, clauses, kinds


def clause_text(name, args, idx, deindexed=False):
    # clause-local variables keep their names; the twin moves head arguments into the body
    if not deindexed:
        return '%s(%s).' % (name, ', '.join([to_text(a) for a in args] + [str(idx)]))
    hv = ['A%d' % j for j in range(len(args))]
    body = ', '.join('%s = %s' % (hv[j], to_text(a)) for j, a in enumerate(args))
    return '%s(%s, I) :- %s, I = %d.' % (name, ', '.join(hv), body, idx)


def computed(rng, t):
    """(prefix goals, variable text) producing t at run time, or None"""
    k = t[0]
    if k == 'i':
        if abs(t[1]) < (1 << 55):
            B = rng.choice([1 << 60, 1 << 64, 10 ** 30])
            return ['{V} is %d - %d + (%d)' % (B, B, t[1])], 'C', 'boxed-small'
        return ['{V} is %d + 1 - 1' % t[1]], 'C', 'bignum'
    if k == 'f':
        from ..terms import bits2f
        v = bits2f(t[1])
        return ['{V} is %s + 0.0' % to_text(t)], 'C', 'float'
    if k == 'l' and t[2] == NIL and all(x[0] == 'a' and len(x[1]) == 1 for x in t[1]) and all(x[1].isalnum() for x in t[1]):
        return ["atom_chars('%s', {V})" % ''.join(x[1] for x in t[1])], 'C', 'string'
    if k == 'l' and t[2] == NIL and len(t[1]) >= 2:
        return ['append(%s, %s, {V})' % (to_text(mklist(t[1][:1])), to_text(mklist(t[1][1:])))], 'C', 'list'
    if k == 'a':
        return ["atom_codes({V}, %s)" % to_text(mklist([mkint(ord(c)) for c in t[1]]))], 'C', 'atom'
    return None


def shard(ctx):
    rec = ctx.rec
    rng = ctx.rng
    w = ctx.worker()
    w.use_modules(['lists'])
    n = ctx.params['n']
    for pi in range(n):
        arity, clauses, kinds = gen_pred(rng)
        mode = ['static', 'dynamic-consulted', 'dynamic-asserted'][pi % 3]
        # fresh names per program: re-consulting a predicate is C35's subject, not this one's
        name = 'p%d_%d' % (ctx.shard, pi)
        twin = 'q%d_%d' % (ctx.shard, pi)
        live = list(range(len(clauses)))
        text = []
        if mode != 'static':
            text.append(':- dynamic(%s/%d).' % (name, arity + 1))
        else:
            text.append(':- abolish(%s/%d).' % (name, arity + 1)) if False else None
        text = [t for t in text if t]
        setup_goals = []
        order = list(range(len(clauses)))
        if mode == 'dynamic-asserted':
            # incremental index maintenance: mix assertz and asserta, then retract a few
            text.append('%s(%s) :- fail.' % (name, ', '.join(['_'] * (arity + 1))))
            seq = []
            for idx in range(len(clauses)):
                if rng.random() < 0.25:
                    seq.insert(0, idx)
                    setup_goals.append('asserta(%s(%s))' % (name, ', '.join([to_text(a) for a in clauses[idx]] + [str(idx)])))
                else:
                    seq.append(idx)
                    setup_goals.append('assertz(%s(%s))' % (name, ', '.join([to_text(a) for a in clauses[idx]] + [str(idx)])))
            order = seq
            for idx in list(order):
                if len(order) > 1 and rng.random() < 0.2:
                    setup_goals.append('retract(%s(%s))' % (name, ', '.join(['_'] * arity + [str(idx)])))
                    order.remove(idx)
            setup_goals.insert(0, 'retractall(%s(%s))' % (name, ', '.join(['_'] * (arity + 1))))
        else:
            for idx, args in enumerate(clauses):
                text.append(clause_text(name, args, idx))
        for idx in order:
            text.append(clause_text(twin, clauses[idx], idx, deindexed=True))
        ptext = '\n'.join(text) + '\n'
        ok = arith.load_clauses(rec, w, ptext)
        if not ok:
            rec.inconc('load-failed')
            continue
        if setup_goals:
            o = arith.run_goal(w, ', '.join(setup_goals) + ', X = done')
            if o != ('val', ('a', 'done')):
                rec.inconc('setup-failed')
                rec.sets['setup_failures'].add(arith.show_obs(o)[:120])
                continue
        # calls
        consts = []
        for args in clauses:
            for a in args:
                if a[0] != 'v' and a not in consts:
                    consts.append(a)
        calls = []
        for _ in range(14):
            cargs = []
            pre = []
            ckinds = set()
            for j in range(arity):
                r = rng.random()
                if r < 0.25:
                    cargs.append('_')
                    ckinds.add('unbound')
                    cmodel = None
                elif r < 0.8 and consts:
                    t = rng.choice(consts)
                    comp = computed(rng, t) if rng.random() < 0.45 else None
                    if comp:
                        goals, var, ck = comp
                        v = 'C%d' % j
                        pre.extend(g.replace('{V}', v) for g in goals)
                        cargs.append((v, t))
                        ckinds.add('computed:' + ck)
                    else:
                        cargs.append((to_text(t), t))
                        ckinds.add('literal')
                else:
                    _, t = key_term(rng, allow_var=False)
                    cargs.append((to_text(t), t))
                    ckinds.add('literal')
            calls.append((pre, cargs, ckinds))
        for pre, cargs, ckinds in calls:
            model_args = []
            texts = []
            for k, ca in enumerate(cargs):
                if ca == '_':
                    model_args.append(mkvar('Call%d' % k))
                    texts.append('_')
                else:
                    texts.append(ca[0])
                    # variables inside call terms are call-local
                    model_args.append(ca[1])
            expected = []
            for idx in order:
                s = {}
                head = [rename_apart(a, idx) for a in clauses[idx]]
                if all_unify(head, model_args, s):
                    expected.append(idx)
            prefix = ''.join(p + ', ' for p in pre)
            g1 = '%sfindall(I, %s(%s, I), X)' % (prefix, name, ', '.join(texts))
            g2 = '%sfindall(I, %s(%s, I), X)' % (prefix, twin, ', '.join(texts))
            o1 = arith.run_goal(w, g1, timeout=10)
            o2 = arith.run_goal(w, g2, timeout=10) if o1[0] != 'timeout' else ('skipped', None)
            rec.case(mode, (ptext, g1), n=2)
            for kk in kinds:
                rec.strata['key:' + kk] += 1
            if any(c.startswith('computed') for c in ckinds):
                rec.strata['call:computed'] += 1
            if 'literal' in ckinds:
                rec.strata['call:literal'] += 1
            if 'unbound' in ckinds:
                rec.strata['call:unbound'] += 1
            rec.info['calls_observed'] += 2
            exp_t = mklist([mkint(i) for i in expected])
            bad = None
            if o1[0] == 'timeout' or o2[0] == 'timeout':
                # the worker was restarted and the program is gone: no further calls for this predicate.
                # A call to a finite fact table that does not return within 10 s (normal: < 1 ms) is reported.
                sig = {'kind': 'hang', 'mode': mode, 'which': 'indexed' if o1[0] == 'timeout' else 'twin'}
                if mode == 'dynamic-asserted':
                    sig['asserta_used'] = any(g.startswith('asserta') for g in setup_goals)
                    sig['retract_used'] = any(g.startswith('retract(') for g in setup_goals)
                rec.violation(sig, {'program': ptext, 'setup': setup_goals, 'call': g1, 'expected': expected,
                                    'observed': 'no answer within 10 s',
                                    'jobs': [{'op': 'raw', 'query': 'use_module(library(lists)).'}, {'op': 'load', 'module': 'user', 'text': ptext}]
                                            + ([{'op': 'run', 'goal': ', '.join(setup_goals) + ' .', 'limit': 1}] if setup_goals else [])})
                break
            if o1 != ('val', exp_t):
                bad = 'indexed_differs_from_reference' if o1[0] == 'val' else o1[0]
            elif o2 != o1:
                bad = 'twin_differs'
            if bad is None:
                if len(rec.samples) < 5 and rng.random() < 0.01:
                    rec.sample({'program': ptext, 'setup': setup_goals, 'call': g1, 'matching_clauses': expected})
                continue
            sig = {'kind': bad, 'mode': mode}
            if mode == 'dynamic-asserted':
                sig['asserta_used'] = any(g.startswith('asserta') for g in setup_goals)
                sig['retract_used'] = any(g.startswith('retract(') for g in setup_goals)
                sig['has_var_key_clause'] = any(clauses[i][0][0] == 'v' or (len(clauses[i]) > 1 and clauses[i][1][0] == 'v') for i in order)
            if bad == 'indexed_differs_from_reference' and o2 == ('val', exp_t):
                got = [x[1] for x in o1[1][1]] if o1[1] != NIL else []
                sig['direction'] = 'missing' if set(got) < set(expected) else ('extra' if set(got) > set(expected) else 'other')
                sig['call_arg'] = call_arg_class(cargs, ckinds)
                if len(set(got)) < len(got) and set(got) == set(expected):
                    sig['direction'] = 'duplicate_answers'
            arith.panic_sig(sig, o1)
            rec.violation(sig, {'program': ptext, 'setup': setup_goals, 'call': g1, 'expected': expected,
                                'observed_indexed': arith.show_obs(o1), 'observed_twin': arith.show_obs(o2),
                                'jobs': [{'op': 'raw', 'query': 'use_module(library(lists)).'}, {'op': 'load', 'module': 'user', 'text': ptext}]
                                        + ([{'op': 'run', 'goal': ', '.join(setup_goals) + ' .', 'limit': 1}] if setup_goals else [])
                                        + [{'op': 'run', 'goal': g1 + ' .', 'limit': 2}, {'op': 'run', 'goal': g2 + ' .', 'limit': 2}]})


def call_arg_class(cargs, ckinds):
    """which kind of run-time value the call carries (for the K2 signature)"""
    cls = set()
    for ca in cargs:
        if ca == '_':
            continue
        t = ca[1]
        is_var_text = ca[0].startswith('C') and ca[0][1:].isdigit()
        if t[0] == 'i' and abs(t[1]) >= (1 << 55):
            # -(2^55) is the smallest small integer, but the reader and arithmetic hand it over boxed
            cls.add('bignum')
        elif t[0] == 'i' and is_var_text:
            cls.add('boxed-small')
        elif t[0] == 'r':
            cls.add('rational')
    if not cls:
        return 'plain'
    return '+'.join(sorted(cls))


def rename_apart(t, idx):
    k = t[0]
    if k == 'v':
        return ('v', ('h', idx, t[1]))
    if k == 'c':
        return ('c', t[1], tuple(rename_apart(a, idx) for a in t[2]))
    if k == 'l':
        return mklist([rename_apart(a, idx) for a in t[1]], rename_apart(t[2], idx))
    return t


def all_unify(head, call, s):
    for h, c in zip(head, call):
        if not refterm.unify(h, c, s):
            return False
    return True
