"""C42 Module qualification and imports resolve to the right definitions.

Oracle: reference model of the module table.  Random layouts of 2-4 modules are written as files:
every module defines some of the names p q r s (each definition answers with a tag naming the module
that holds it), exports a subset, imports from earlier modules with use_module/1 or use_module/2, and
holds probe predicates that call every name unqualified, through call/1 and through a
meta-predicate of another module.  The answer of every probe tells which definition ran; the model
says which one must run, or that an existence error must be raised."""
import os

from .. import arith
from ..terms import mkint, mkatom, mklist, mkc, NIL, show

ID = 'C42'
LEVEL = 'exploration'
RULE = ('layouts of 2-4 modules over the names p q r s: random definitions, export lists, import edges to earlier modules (all exports or a '
        'selected list), also selective imports of a name that the importing module then defines itself (its own definition must win and the exporter must keep its own); no name imported from two modules; probes inside '
        'every module for every name: unqualified call, call/1, call through the meta-predicate mcall/1 of a separate module, and '
        'findall/3 (a builtin meta-predicate); from user: Module:Name for defined names and for names neither defined nor imported, '
        'unqualified calls of names imported into user. distinct = distinct (layout, probe); non-trivial = name visible through an import')
PARAMS = {'quick': {'n': 60}, 'thorough': {'n': 4000}}
MIN_EVAL = {'quick': 6000, 'thorough': 400000}
STRATA = ['own-definition', 'redefined-after-import', 'imported-all', 'imported-selected', 'not-visible', 'qualified-call', 'meta-predicate-argument', 'call-1', 'same-name-independent']
ASSUMPTIONS = ['a name that a module neither defines nor imports raises existence_error when called there, even if another loaded module or user defines it',
               'layouts in which a module imports one name from two modules, or imports all exports of a module while defining one of them, are not generated']

NAMES = ['p', 'q', 'r', 's']


def shard(ctx):
    rec = ctx.rec
    rng = ctx.rng
    w = ctx.worker()
    root = os.path.realpath(ctx.scratch_dir())
    setup_q = 'use_module(library(lists)).'
    for i in range(ctx.params['n']):
        w.job({'op': 'new'})
        w.setup([{'op': 'raw', 'query': setup_q}])
        tag = 'c42_%d_%d_' % (ctx.shard, i)
        nm = rng.randint(2, 4)
        mods = [tag + 'm%d' % k for k in range(nm)]
        mc = tag + 'mc'
        path = lambda m: '%s/%s.pl' % (root, m)
        with open(path(mc), 'w') as f:
            f.write(':- module(%s, [mcall/1]).\n:- meta_predicate(mcall(0)).\nmcall(G) :- call(G).\n' % mc)
        defs, exps, imps, redefs = {}, {}, {}, {}
        for k, m in enumerate(mods):
            d = set(n for n in NAMES if rng.random() < 0.55)
            e = set(n for n in d if rng.random() < 0.7)
            visible = set(d)
            im = []
            redefined = set()
            for j in range(k):
                if rng.random() < 0.6:
                    avail = [n for n in sorted(exps[mods[j]]) if n not in visible]
                    redef = [n for n in sorted(exps[mods[j]]) if n in d and not any(n in names for _, _, names in im)]
                    if redef and rng.random() < 0.35:
                        # selective import of a name the module then defines itself: the own definition wins, the exporter keeps its own
                        sel = rng.sample(redef, rng.randint(1, len(redef)))
                        im.append((mods[j], sorted(sel), []))
                        redefined.update(sel)
                        continue
                    if not avail:
                        continue
                    if rng.random() < 0.5 and all(n not in visible for n in exps[mods[j]]):
                        im.append((mods[j], None, sorted(exps[mods[j]])))
                        visible |= exps[mods[j]]
                    else:
                        sel = rng.sample(avail, rng.randint(1, len(avail)))
                        im.append((mods[j], sorted(sel), sorted(sel)))
                        visible |= set(sel)
            defs[m], exps[m], imps[m] = d, e, im
            redefs[m] = redefined
            lines = [':- module(%s, [%s]).' % (m, ', '.join(['%s/1' % n for n in sorted(e)] + ['u_%s/1' % n for n in NAMES] + ['c_%s/1' % n for n in NAMES] +
                                                              ['m_%s/1' % n for n in NAMES] + ['f_%s/1' % n for n in NAMES] + [m + '_marker/0'])),
                     ":- use_module('%s')." % path(mc)]
            for (j, sel, _) in im:
                lines.append(":- use_module('%s'%s)." % (path(j), '' if sel is None else ', [%s]' % ', '.join('%s/1' % n for n in sel)))
            lines.append('%s_marker.' % m)
            for n in sorted(d):
                lines.append('%s(%s).' % (n, m))
            for n in NAMES:
                lines.append('u_%s(T) :- %s(T).' % (n, n))
                lines.append('c_%s(T) :- G = %s(T), call(G).' % (n, n))
                lines.append('m_%s(T) :- mcall(%s(T)).' % (n, n))
                lines.append('f_%s(T) :- findall(X, %s(X), [T]).' % (n, n))
            with open(path(m), 'w') as f:
                f.write('\n'.join(lines) + '\n')
        # user loads the last module (which pulls in its imports) and possibly others
        user_imports = []
        jobs = [{'op': 'new'}, {'op': 'raw', 'query': setup_q}]
        okload = True
        for m in mods:
            q = "use_module('%s', [%s_marker/0])." % (path(m), m)      # an empty import list would not load the file at all
            jobs.append({'op': 'raw', 'query': q})
            rep = w.job({'op': 'raw', 'query': q}, timeout=60)
            if rep.get('panic') or not rep.get('raw') or rep['raw'][0].get('k') not in ('true', 'bindings'):
                rec.violation({'kind': 'module_file_did_not_load', 'panic': bool(rep.get('panic'))}, {'observed': str(rep)[:400], 'file': open(path(m)).read(), 'jobs': jobs})
                okload = False
                break
        if not okload:
            continue

        def resolve(m, n):
            if n in defs[m]:
                return m, ('redefined-after-import' if n in redefs[m] else 'own-definition')
            for (j, sel, names) in imps[m]:
                if n in names:
                    return j, ('imported-all' if sel is None else 'imported-selected')
            return None, 'not-visible'
        for m in mods:
            for n in NAMES:
                target, st = resolve(m, n)
                for kind, pred in (('unqualified', 'u_'), ('call-1', 'c_'), ('meta-predicate-argument', 'm_'), ('findall', 'f_')):
                    goal = 'catch(( %s:%s%s(T) -> R = T ; R = failed ), error(E, _), R = err(E))' % (m, pred, n)
                    o = arith.run_goal(w, goal, var='R', timeout=30)
                    rec.case(st, (tag, m, n, kind), nontrivial=st.startswith('imported'))
                    if kind != 'unqualified':
                        rec.case(kind if kind in STRATA else 'call-1', (tag, m, n, kind, 'k'))
                    if sum(1 for x in mods if n in defs[x]) > 1:
                        rec.case('same-name-independent', (tag, m, n, kind, 's'))
                    ok = False
                    if o[0] == 'val':
                        if target is not None:
                            ok = o[1] == mkatom(target)
                        else:
                            ok = o[1][0] == 'c' and o[1][1] == 'err' and o[1][2][0][0] == 'c' and o[1][2][0][1] == 'existence_error'
                    if not ok:
                        sig = {'kind': 'resolves_to_wrong_definition' if o[0] == 'val' else o[0], 'call': kind, 'visibility': st}
                        arith.panic_sig(sig, o)
                        rec.violation(sig, {'goal': goal, 'expected': target or 'existence_error', 'observed': arith.show_obs(o)[:300],
                                            'module_file': open(path(m)).read(), 'jobs': jobs + [{'op': 'run', 'goal': goal + ' .', 'limit': 2, 'pred': 'runr'}]})
                # qualified call from user
                if n in defs[m] or target is None:
                    goal = 'catch(( %s:%s(T) -> R = T ; R = failed ), error(E, _), R = err(E))' % (m, n)
                    o = arith.run_goal(w, goal, var='R', timeout=30)
                    rec.case('qualified-call', (tag, m, n, 'q'))
                    ok = o[0] == 'val' and ((o[1] == mkatom(m)) if n in defs[m] else (o[1][0] == 'c' and o[1][1] == 'err' and o[1][2][0][0] == 'c' and o[1][2][0][1] == 'existence_error'))
                    if not ok:
                        sig = {'kind': 'qualified_call_wrong' if o[0] == 'val' else o[0], 'defined_there': n in defs[m]}
                        arith.panic_sig(sig, o)
                        rec.violation(sig, {'goal': goal, 'expected': m if n in defs[m] else 'existence_error', 'observed': arith.show_obs(o)[:300],
                                            'module_file': open(path(m)).read(), 'jobs': jobs + [{'op': 'run', 'goal': goal + ' .', 'limit': 2, 'pred': 'runr'}]})
        # user's own import: u_p/1 of the modules user imported selectively must be callable unqualified only if exactly one was imported
        if len(user_imports) == 1:
            m = user_imports[0]
            target, _ = resolve(m, 'p')
            goal = 'catch(( u_p(T) -> R = T ; R = failed ), error(E, _), R = err(E))'
            o = arith.run_goal(w, goal, var='R', timeout=30)
            rec.case('user-import', (tag, 'u'))
            ok = o[0] == 'val' and ((o[1] == mkatom(target)) if target else (o[1][0] == 'c' and o[1][1] == 'err'))
            if not ok:
                rec.violation({'kind': 'user_import_wrong'}, {'goal': goal, 'expected': target or 'existence_error', 'observed': arith.show_obs(o)[:300], 'jobs': jobs})
        if len(rec.samples) < 4 and i % 11 == 0:
            rec.sample({'modules': {m: {'defines': sorted(defs[m]), 'exports': sorted(exps[m]), 'imports': [(j.replace(tag, ''), s) for j, s, _ in imps[m]]} for m in mods}})
