"""C21 Atom identity is text identity.

Oracle: differential between creation paths of an atom with the same text (all must be ==,
compare =, select the same indexed clause, read back the same text) + reference order
(code-point sequence) between different texts + "different texts are different atoms"."""
from .. import arith
from ..terms import mkint, mkatom, mklist, NIL, show, quote_atom, atom_operand, dq_string

ID = 'C21'
LEVEL = 'exploration'
RULE = ('texts: empty, every length 1-9 bytes in ASCII and with 2/3/4-byte characters so that the UTF-8 length crosses the 6/7/8 '
        'byte inline limit while the character count does not, texts containing NUL at each position, texts equal to predefined '
        'atoms (append, [], {}, true, is, dynamic, error, ...) and near misses (predefined text + one char, first 6 bytes of a '
        'predefined text), long texts (64-1000 characters); each text is turned into an atom by 11 paths (quoted literal in '
        'the goal, literal in a consulted clause, atom_codes, atom_chars, atom_concat of a split, sub_atom of a longer atom, '
        'char_code for 1-char texts, read_term_from_chars, =.. / functor name, write+read round trip, number text via '
        'atom_number-style conversion) and all are checked pairwise-equal against the goal literal with ==, compare/3, '
        'first-argument clause selection in a consulted fact table, and atom_codes read-back; pairs of different texts must be '
        '\\== and ordered by code points. distinct = distinct (text, path); non-trivial = all')
PARAMS = {'quick': {'n': 420}, 'thorough': {'n': 20000}}
MIN_EVAL = {'quick': 40000, 'thorough': 2000000}
STRATA = ['short-ascii', 'multibyte-around-inline-limit', 'nul', 'predefined', 'near-predefined', 'long', 'order-pairs']
ASSUMPTIONS = ['identity is observed through ==, compare/3, clause selection and text read-back, not through the raw atom index']

PREDEF = ['append', '[]', '{}', 'true', 'false', 'is', 'dynamic', 'error', 'call', 'atom', 'length', 'member', 'user', 'end_of_file',
          'type_error', 'instantiation_error', '.', '-', '+', '*', '=', ':-', ',', '|', '!', ';', 'a', 'b', 'x', 'nil', 'lists', 'foo',
          'existence_error', 'procedure', 'evaluation_error', 'zero_divisor', 'halt', 'write', 'nl', 'maplist', 'between', 'atom_length']


def gen_text(rng, i):
    r = i % 7
    if r == 0:
        n = rng.randint(0, 9)
        return 'short-ascii', ''.join(rng.choice('abcxyzABZ019_ ') for _ in range(n))
    if r == 1:
        pool = ['a', 'b', 'é', 'ñ', '日', '本', '\U0001F600', '\U0001D11E']
        while True:
            n = rng.randint(1, 6)
            s = ''.join(rng.choice(pool) for _ in range(n))
            if 4 <= len(s.encode()) <= 12:
                return 'multibyte-around-inline-limit', s
    if r == 2:
        n = rng.randint(1, 9)
        s = [rng.choice('abc') for _ in range(n)]
        s[rng.randrange(n)] = '\x00'
        if rng.random() < 0.3:
            s[rng.randrange(n)] = '\x00'
        return 'nul', ''.join(s)
    if r == 3:
        return 'predefined', rng.choice(PREDEF)
    if r == 4:
        p = rng.choice(PREDEF)
        return 'near-predefined', rng.choice([p + rng.choice('xs_1'), p[:6], p[:-1] if len(p) > 1 else p + 'q', p.upper(), ' ' + p, p + '\x00'])
    if r == 5:
        n = rng.choice([100, 1000, 64, 255, 256, 300])
        return 'long', ''.join(rng.choice('abcdefghij é') for _ in range(n))
    return 'short-ascii', ''.join(rng.choice('abc') for _ in range(rng.randint(5, 8)))


def codes_text(s):
    return '[' + ','.join(str(ord(c)) for c in s) + ']'


def chars_text(s):
    return '[' + ','.join(atom_operand(c) for c in s) + ']'


def paths(s, rng):
    """name -> goal binding A"""
    P = {}
    q = atom_operand(s)
    P['atom_codes'] = 'atom_codes(A, %s)' % codes_text(s)
    P['atom_chars'] = 'atom_chars(A, %s)' % chars_text(s)
    k = rng.randint(0, len(s))
    P['atom_concat'] = 'atom_concat(%s, %s, A)' % (atom_operand(s[:k]), atom_operand(s[k:]))
    pre, post = rng.choice(['', 'x', 'zz', 'é']), rng.choice(['', 'y', 'ww', '日'])
    P['sub_atom'] = 'sub_atom(%s, %d, %d, _, A)' % (atom_operand(pre + s + post), len(pre), len(s))
    if len(s) == 1:
        P['char_code'] = 'char_code(A, %d)' % ord(s)
    P['read_term'] = 'read_term_from_chars(%s, A, [])' % dq_string(quote_atom_for_read(s) + ' .')
    P['univ'] = 'T =.. [%s, 1], functor(T, A, _)' % q
    P['write-read'] = 'write_term_to_chars(%s, [quoted(true)], Cs), append(Cs, " .", Cs1), read_term_from_chars(Cs1, A, [])' % q
    P['consulted-clause'] = 'c21lit(A)'
    P['copy'] = 'copy_term(%s, A)' % q
    P['findall'] = 'findall(X, X = %s, [A])' % q
    return P


def quote_atom_for_read(s):
    # always quoted: safe for every text
    out = ["'"]
    for ch in s:
        o = ord(ch)
        if ch == "'":
            out.append("\\'")
        elif ch == '\\':
            out.append('\\\\')
        elif o < 0x20 or o == 0x7f:
            out.append('\\x%x\\' % o)
        else:
            out.append(ch)
    out.append("'")
    return ''.join(out)


def shard(ctx):
    rec = ctx.rec
    rng = ctx.rng
    w = ctx.worker()
    w.use_modules(['lists', 'charsio'])
    n = ctx.params['n']
    seen = set()
    prev = None
    for i in range(n):
        st, s = gen_text(rng, i + ctx.shard * 5)
        if s in seen:
            continue
        seen.add(s)
        q = atom_operand(s)
        other = prev if prev is not None and prev != s else s + 'q'
        table = 'c21lit(%s).\nc21k(%s, hit).\nc21k(%s, other).\nc21k(zzzz_never, no).\n' % (q, q, atom_operand(other))
        if not arith.load_clauses(rec, w, table):
            rec.inconc('load-failed')
            continue
        for pname, pgoal in paths(s, rng).items():
            goal = ('%s, ( A == %s -> E = y ; E = n ), compare(O, A, %s), ( c21k(A, K) -> true ; K = none ), atom_codes(A, Cs0), '
                    'atom_length(A, Len), R = r(E, O, K, Cs0, Len)') % (pgoal, q, q)
            o = arith.run_goal(w, goal, var='R', timeout=30)
            rec.case(st, (s, pname))
            rec.info['atoms_created'] += 1
            want = ('c', 'r', (mkatom('y'), mkatom('='), mkatom('hit'), mklist([mkint(ord(c)) for c in s]), mkint(len(s))))
            if o[0] in ('timeout', 'died'):
                # the worker was restarted and the fact table is gone: stop with this text
                rec.inconc('timeout' if o[0] == 'timeout' else 'worker-died')
                rec.sets['abandoned_texts'].add(s[:40])
                if o[0] == 'died':
                    rec.violation({'kind': 'died', 'path': pname, 'stratum': st}, {'text': s, 'goal': goal, 'observed': arith.show_obs(o)})
                break
            if o == ('val', want):
                continue
            sig = {'kind': 'path_differs' if o[0] == 'val' else o[0], 'path': pname, 'stratum': st}
            if o[0] == 'val' and o[1][0] == 'c' and len(o[1][2]) == 5:
                names = ['eq', 'compare', 'clause', 'codes', 'length']
                sig['which'] = ','.join(nm for nm, a, b in zip(names, o[1][2], want[2]) if a != b)
            arith.panic_sig(sig, o)
            rec.violation(sig, {'text': s, 'goal': goal, 'observed': arith.show_obs(o)[:400], 'expected': show(want)[:400],
                                'jobs': [{'op': 'raw', 'query': 'use_module(library(lists)), use_module(library(charsio)).'},
                                         {'op': 'load', 'module': 'user', 'text': table}, {'op': 'run', 'goal': goal + ' .', 'limit': 2, 'pred': 'runr'}]})
        # different texts are different atoms, ordered by code points
        if prev is not None and prev != s:
            a, b = prev, s
            exp = '<' if [ord(c) for c in a] < [ord(c) for c in b] else '>'
            goal = 'atom_codes(A, %s), atom_codes(B, %s), ( A == B -> E = y ; E = n ), compare(O, A, B), compare(O2, %s, %s), R = r(E, O, O2)' % (
                codes_text(a), codes_text(b), atom_operand(a), atom_operand(b))
            o = arith.run_goal(w, goal, var='R')
            rec.case('order-pairs', (a, b))
            want = ('c', 'r', (mkatom('n'), mkatom(exp), mkatom(exp)))
            if o[0] != 'timeout' and o != ('val', want):
                sig = {'kind': 'wrong_order_or_identity', 'stratum': 'order-pairs'}
                arith.panic_sig(sig, o)
                rec.violation(sig, {'a': a, 'b': b, 'goal': goal, 'observed': arith.show_obs(o), 'expected': show(want),
                                    'jobs': [{'op': 'run', 'goal': goal + ' .', 'limit': 2, 'pred': 'runr'}]})
        prev = s
        if len(rec.samples) < 5 and i % 29 == 0:
            rec.sample({'text': s, 'stratum': st, 'paths': sorted(paths(s, rng))})
