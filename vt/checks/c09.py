"""C09 Dynamic predicates follow the logical update view.

Oracle: history + model.  A Python list models the clause store of a dynamic predicate.  A call
(or a retract/1 iteration, or a clause/2 iteration) is consumed solution by solution; after the
n-th solution a scheduled database action runs (assertz, asserta, retract of the first match,
retract by backtracking, retractall, retract of a clause the iteration has not reached yet, an
inner call that observes the store).  The answers of the outer iteration must be exactly the
clauses that existed when it started, the inner observations and the final listing must show the
store as modified."""
from .. import arith
from ..terms import mkint, mkatom, mklist, mkc, NIL, show, to_text, rename_canonical

ID = 'C09'
LEVEL = 'exploration'
RULE = ('stores of 2-7 clauses d(Key, Id) over the keys a b 1 f(x) "s" and unbound keys (so that first-argument indexing has constant, '
        'structure and variable keys), built with assertz/asserta; outer iteration by a call with the key unbound, given, or given '
        'and absent, by clause/2, or by retract/1 (with asserting actions only); 1-4 scheduled actions after chosen solutions: '
        'assertz, asserta (same key, other key, variable key), retract of the first matching clause, of a clause by id (already '
        'visited, current, not yet visited), retract by backtracking, retractall, inner observation by call and by clause/2, nested '
        'outer iteration; final listing. distinct = distinct (store, iteration, schedule); non-trivial = schedule changes clauses '
        'the iteration matches')
PARAMS = {'quick': {'n': 250}, 'thorough': {'n': 15000}}
MIN_EVAL = {'quick': 6000, 'thorough': 500000}
STRATA = ['iterate-unbound-key', 'iterate-given-key', 'iterate-clause2', 'iterate-retract', 'action-assertz', 'action-asserta', 'action-retract-first',
          'action-retract-unvisited', 'action-retract-visited', 'action-retract-backtracking', 'action-retractall', 'inner-observation', 'final-listing']
ASSUMPTIONS = ['ISO 7.5.4 logical update view; retract/1 iterations are combined with asserting actions only (the standard leaves open what a '
               're-entered retract/1 does with a clause another goal has already removed)']

KEYS = [mkatom('a'), mkatom('b'), mkint(1), mkc('f', mkatom('x')), None]     # None: unbound key


def key_text(k):
    return '_' if k is None else to_text(k)


def matches(pat, key):
    return pat is None or key is None or pat == key


def shard(ctx):
    rec = ctx.rec
    rng = ctx.rng
    w = ctx.worker()
    setup_q = 'use_module(library(lists)), use_module(library(iso_ext)).'
    w.setup([{'op': 'raw', 'query': setup_q}])
    for i in range(ctx.params['n']):
        d = 'c09d_%d_%d' % (ctx.shard, i)
        act = 'c09a_%d_%d' % (ctx.shard, i)
        nid = [100]

        def newid():
            nid[0] += 1
            return nid[0]
        # ---- initial store
        store = []
        build = []
        for _ in range(rng.randint(2, 7)):
            k = rng.choice(KEYS)
            v = newid()
            if True:      # the initial store is built with assertz/1 only (asserta/1 appears as a scheduled action)
                store.append((k, v))
                build.append('assertz(%s(%s, %d))' % (d, key_text(k), v))
            else:
                store.insert(0, (k, v))
                build.append('asserta(%s(%s, %d))' % (d, key_text(k), v))
        # ---- outer iteration
        it = rng.choice(['call-unbound', 'call-unbound', 'call-key', 'call-key', 'clause2', 'retract'])
        pat = None if it in ('call-unbound',) or (it in ('clause2', 'retract') and rng.random() < 0.5) else rng.choice(KEYS[:4] + [mkatom('zz')])
        snapshot = [(k, v) for (k, v) in store if matches(pat, k)]
        pt = key_text(pat)
        # ---- schedule
        strata = set()
        nacts = rng.randint(1, 4)
        sched = {}
        model = list(store)
        expected = []
        clauses = []
        steps = sorted(rng.sample(range(1, max(len(snapshot), 1) + 2), min(nacts, max(len(snapshot), 1) + 1)))
        plan = {s: None for s in steps}
        # the iteration is simulated to learn which clause is "current" at each step
        if it == 'retract':
            pass
        for n_sol, (k_cur, v_cur) in enumerate(snapshot, 1):
            if it == 'retract':
                model = [c for c in model if c[1] != v_cur]
            obs = mkatom('none')
            if n_sol in plan:
                kinds = ['assertz', 'asserta', 'observe-call', 'observe-clause2']
                if it != 'retract':
                    kinds += ['retract-first', 'retract-by-id', 'retract-backtracking', 'retractall']
                kind = rng.choice(kinds)
                if kind in ('assertz', 'asserta'):
                    k2 = rng.choice([pat if pat is not None else rng.choice(KEYS[:4]), rng.choice(KEYS)])
                    v2 = newid()
                    goal = '%s(%s(%s, %d))' % (kind, d, key_text(k2), v2)
                    if kind == 'assertz':
                        model.append((k2, v2))
                    else:
                        model.insert(0, (k2, v2))
                    strata.add('action-' + kind)
                elif kind == 'retract-first':
                    k2 = rng.choice(KEYS[:4])
                    goal = '( retract(%s(%s, _)) -> true ; true )' % (d, to_text(k2))
                    for c in model:
                        if matches(k2, c[0]):
                            model.remove(c)
                            break
                    strata.add('action-retract-first')
                elif kind == 'retract-by-id':
                    pool = [c for c in model]
                    if pool:
                        c = rng.choice(pool)
                        goal = '( retract(%s(_, %d)) -> true ; true )' % (d, c[1])
                        model.remove(c)
                        ids = [v for _, v in snapshot]
                        if c[1] in ids and ids.index(c[1]) + 1 > n_sol:
                            strata.add('action-retract-unvisited')
                        else:
                            strata.add('action-retract-visited')
                    else:
                        goal = 'true'
                elif kind == 'retract-backtracking':
                    k2 = rng.choice(KEYS[:4])
                    goal = '( retract(%s(%s, _)), fail ; true )' % (d, to_text(k2))
                    model = [c for c in model if not matches(k2, c[0])]
                    strata.add('action-retract-backtracking')
                elif kind == 'retractall':
                    k2 = rng.choice(KEYS[:4])
                    goal = 'retractall(%s(%s, _))' % (d, to_text(k2))
                    model = [c for c in model if not matches(k2, c[0])]
                    strata.add('action-retractall')
                else:
                    p2 = rng.choice([None] + KEYS[:4])
                    if kind == 'observe-call':
                        goal = 'findall(W, %s(%s, W), Obs)' % (d, key_text(p2))
                    else:
                        goal = 'findall(W, clause(%s(%s, W), true), Obs)' % (d, key_text(p2))
                    obs = mklist([mkint(v) for (k, v) in model if matches(p2, k)])
                    strata.add('inner-observation')
                if 'Obs' not in goal:
                    goal += ', Obs = none'
                clauses.append('%s(%d, Obs) :- !, %s.' % (act, n_sol, goal))
            expected.append(mkc('-', mkint(v_cur), obs))
        clauses.append('%s(_, none).' % act)
        text = ':- dynamic(%s/2).\n' % d + '\n'.join(clauses) + '\n'
        if not arith.load_clauses(rec, w, text):
            continue
        if it.startswith('call'):
            outer = '%s(%s, V)' % (d, pt)
            st = 'iterate-unbound-key' if pat is None else 'iterate-given-key'
        elif it == 'clause2':
            outer = 'clause(%s(%s, V), true)' % (d, pt)
            st = 'iterate-clause2'
        else:
            outer = 'retract(%s(%s, V))' % (d, pt)
            st = 'iterate-retract'
        goal = ('%s, bb_put(c09n, 0), findall(V-Obs, ( %s, bb_get(c09n, N0), N is N0 + 1, bb_put(c09n, N), %s(N, Obs) ), L), '
                'findall(K-W, clause(%s(K, W), true), Final), R = r(L, Final)') % (', '.join(build), outer, act, d)
        final = mklist([mkc('-', (mkc('$VAR', mkint(0)) if k is None else k), mkint(v)) for k, v in model])
        o = arith.run_goal(w, goal, var='R', timeout=30)
        rec.case(st, (goal,), nontrivial=bool(strata - {'inner-observation'}))
        for s in strata:
            rec.case(s, (goal, s))
        rec.case('final-listing', (goal, 'f'))
        why = None
        if o[0] != 'val':
            why = 'run_' + o[0]
        else:
            got_l, got_final = o[1][2]
            if rename_canonical(got_l) != rename_canonical(mklist(expected)):
                why = 'iteration_does_not_see_the_clauses_of_its_call_time'
            else:
                # final listing: keys compared with unbound keys as wildcards
                gf = [] if got_final == NIL else list(got_final[1])
                if len(gf) != len(model) or any((x[2][1] != mkint(v)) or (k is not None and x[2][0] != k) or (k is None and x[2][0][0] != 'v')
                                                for x, (k, v) in zip(gf, model)):
                    why = 'final_store_differs_from_model'
        if why is None:
            if len(rec.samples) < 5 and i % 37 == 0:
                rec.sample({'iteration': outer, 'schedule': clauses[:4], 'answers': show(mklist(expected))[:200]})
            continue
        sig = {'kind': why, 'iteration': st, 'actions': '+'.join(sorted(strata)) or 'none', 'asserta_used': 'action-asserta' in strata,
               'retract_used': any('retract' in x for x in strata), 'variable_keys': any(k is None for k, _ in store)}
        arith.panic_sig(sig, o)
        rec.violation(sig, {'program': text, 'goal': goal, 'expected_answers': show(mklist(expected))[:400], 'expected_final': str(model)[:300],
                            'observed': arith.show_obs(o)[:700],
                            'jobs': [{'op': 'raw', 'query': setup_q}, {'op': 'load', 'module': 'user', 'text': text}, {'op': 'run', 'goal': goal + ' .', 'limit': 2, 'pred': 'runr'}]})
