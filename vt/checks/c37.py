"""C37 Hashes and encodings are byte-exact.

Oracle: reference algorithms (Python hashlib, hmac, base64, bytes.hex, utf-8 codec) next to
the engine; encode/decode and encrypt/decrypt round trips; tampered ciphertext must not
decrypt."""
import base64
import hashlib
import hmac

from .. import simple, arith
from ..terms import mkint, mkatom, mklist, mkstr, mkc, NIL, dq_string, show

ID = 'C37'
LEVEL = 'exploration'
RULE = ('inputs of length 0-300 incl. every length around the block sizes 55/56/63/64/65/111/112/127/128/135/136/143/144, as '
        'strings of code points < 256 under encoding(octet) and as Unicode text under encoding(utf8); crypto_data_hash/3 for all '
        '11 algorithms, HMAC for sha256/384/512 with keys of 0-200 bytes; hex_bytes/2 both directions (upper/lower case input, '
        'invalid hex); chars_base64/3 both directions with padding(true|false) x charset(standard|url) and invalid input; '
        'chars_utf8bytes/2 both directions; crypto_data_encrypt/6 -> crypto_data_decrypt/6 round trip with random key/nonce, '
        'with and without aad, and with a flipped ciphertext or tag byte (must fail or throw, never return text). '
        'distinct = distinct goals; non-trivial = all')
PARAMS = {'quick': {'n': 700}, 'thorough': {'n': 40000}}
MIN_EVAL = {'quick': 9000, 'thorough': 500000}
STRATA = ['hash', 'hmac', 'hex', 'base64', 'utf8bytes', 'encrypt-roundtrip', 'encrypt-tamper']
ASSUMPTIONS = ['Python hashlib/hmac/base64 are the reference algorithms', 'AEAD ciphertext bytes are not compared (no stdlib reference); '
               'only the round trip and tamper rejection are']

ALGOS = {'ripemd160': 'ripemd160', 'sha256': 'sha256', 'sha384': 'sha384', 'sha512': 'sha512', 'sha512_256': 'sha512_256',
         'sha3_224': 'sha3_224', 'sha3_256': 'sha3_256', 'sha3_384': 'sha3_384', 'sha3_512': 'sha3_512',
         'blake2s256': 'blake2s', 'blake2b512': 'blake2b'}
SETUP = "c37_chars([], []).\nc37_chars([B|Bs], [C|Cs]) :- char_code(C, B), c37_chars(Bs, Cs).\n"
LENS = [0, 1, 2, 3, 55, 56, 63, 64, 65, 111, 112, 127, 128, 135, 136, 143, 144, 200, 300]


def rbytes(rng, n=None):
    if n is None:
        n = rng.choice(LENS) if rng.random() < 0.6 else rng.randint(0, 40)
    return bytes(rng.getrandbits(8) for _ in range(n))


def octet_chars(b):
    """Prolog text of the char list whose codes are the bytes"""
    return '[' + ','.join("C%d" % x if False else str(x) for x in b) + ']'


def gen_cases(rng, n):
    for i in range(n):
        r = i % 7
        if r == 0:
            algo = rng.choice(sorted(ALGOS))
            if rng.random() < 0.6:
                b = rbytes(rng)
                want = hashlib.new(ALGOS[algo], b).hexdigest()
                goal = 'c37_chars(%s, Cs), crypto_data_hash(Cs, R, [algorithm(%s), encoding(octet)])' % (octet_chars(b), algo)
            else:
                s = ''.join(rng.choice('abc é日😀ß\n') for _ in range(rng.choice(LENS[:12])))
                want = hashlib.new(ALGOS[algo], s.encode('utf-8')).hexdigest()
                goal = 'crypto_data_hash(%s, R, [algorithm(%s)])' % (dq_string(s), algo)
            yield 'hash', goal, ('val', mkstr(want))
        elif r == 1:
            algo = rng.choice(['sha256', 'sha384', 'sha512'])
            key = rbytes(rng, rng.choice([0, 1, 16, 32, 63, 64, 65, 127, 128, 129, 200]))
            s = ''.join(rng.choice('abcdefgh 0123') for _ in range(rng.choice(LENS[:14])))
            want = hmac.new(key, s.encode(), ALGOS[algo]).hexdigest()
            yield 'hmac', 'crypto_data_hash(%s, R, [algorithm(%s), hmac(%s)])' % (dq_string(s), algo, octet_chars(key)), ('val', mkstr(want))
        elif r == 2:
            b = rbytes(rng, rng.randint(0, 40))
            k = rng.random()
            if k < 0.4:
                yield 'hex', 'hex_bytes(R, %s)' % octet_chars(b), ('val', mkstr(b.hex()))
            elif k < 0.8:
                h = b.hex()
                if rng.random() < 0.5:
                    h = h.upper()
                yield 'hex', 'hex_bytes(%s, R)' % dq_string(h), ('val', mklist([mkint(x) for x in b]))
            else:
                bad = rng.choice(['0', 'abc', 'zz', '0g', '12 34', 'é0'])
                yield 'hex', 'hex_bytes(%s, R)' % dq_string(bad), ('any_err',)
        elif r == 3:
            b = rbytes(rng, rng.randint(0, 40))
            pad = rng.choice([True, False])
            url = rng.choice([True, False])
            opts = '[padding(%s), charset(%s)]' % ('true' if pad else 'false', 'url' if url else 'standard')
            enc = (base64.urlsafe_b64encode if url else base64.b64encode)(b).decode()
            if not pad:
                enc = enc.rstrip('=')
            chars = ''.join(chr(x) for x in b)
            if rng.random() < 0.5:
                yield 'base64', 'c37_chars(%s, Cs), chars_base64(Cs, R, %s)' % (octet_chars(b), opts), ('val', mkstr(enc))
            else:
                yield 'base64', 'chars_base64(R, %s, %s)' % (dq_string(enc), opts), ('val', mkstr(chars))
        elif r == 4:
            s = ''.join(rng.choice('abc é日😀ß\n\x01') for _ in range(rng.randint(0, 20)))
            b = s.encode('utf-8')
            if rng.random() < 0.5:
                yield 'utf8bytes', 'chars_utf8bytes(%s, R)' % dq_string(s), ('val', mklist([mkint(x) for x in b]))
            else:
                yield 'utf8bytes', 'chars_utf8bytes(R, %s)' % octet_chars(b), ('val', mkstr(s))
        elif r == 5:
            s = ''.join(rng.choice('abcdefgh é日') for _ in range(rng.choice([0, 1, 15, 16, 17, 63, 64, 65, 200])))
            key, iv = rbytes(rng, 32), rbytes(rng, 12)
            aad = ', aad("hdr")' if rng.random() < 0.5 else ''
            goal = ("crypto_data_encrypt(%s, 'chacha20-poly1305', %s, %s, CT, [tag(Tag)%s]), "
                    "crypto_data_decrypt(CT, 'chacha20-poly1305', %s, %s, R, [tag(Tag)%s])") % (dq_string(s), octet_chars(key), octet_chars(iv), aad, octet_chars(key), octet_chars(iv), aad)
            yield 'encrypt-roundtrip', goal, ('val', mkstr(s))
        else:
            s = ''.join(rng.choice('abcdefgh') for _ in range(rng.randint(1, 40)))
            key, iv = rbytes(rng, 32), rbytes(rng, 12)
            which = rng.choice(['tag', 'ct', 'aad'])
            if which == 'tag':
                tamper = 'Tag = [T0|Ts], T1 is xor(T0, 1), Tag2 = [T1|Ts], CT2 = CT, A2 = "hdr"'
            elif which == 'ct':
                tamper = 'CT = [C0|Cs], char_code(C0, K0), K1 is xor(K0, 1), char_code(C1, K1), CT2 = [C1|Cs], Tag2 = Tag, A2 = "hdr"'
            else:
                tamper = 'CT2 = CT, Tag2 = Tag, A2 = "hdx"'
            goal = ("crypto_data_encrypt(%s, 'chacha20-poly1305', %s, %s, CT, [tag(Tag), aad(\"hdr\")]), %s, "
                    "( catch(crypto_data_decrypt(CT2, 'chacha20-poly1305', %s, %s, P, [tag(Tag2), aad(A2)]), _, fail) -> R = decrypted(P) ; R = rejected )") % (
                dq_string(s), octet_chars(key), octet_chars(iv), tamper, octet_chars(key), octet_chars(iv))
            yield 'encrypt-tamper', goal, ('val', mkatom('rejected'))


def shard(ctx):
    w = ctx.worker()
    w.use_modules(['lists', 'charsio', 'crypto'], extra_jobs=[{'op': 'load', 'module': 'user', 'text': SETUP}])
    simple.run_cases(ctx, w, gen_cases(ctx.rng, ctx.params['n']), setup_text=SETUP,
                     setup_query='use_module(library(lists)), use_module(library(charsio)), use_module(library(crypto)).',
                     pred_of=lambda g: next((p for p in ('crypto_data_hash', 'hex_bytes', 'chars_base64', 'chars_utf8bytes', 'crypto_data_encrypt') if p in g), '?'))
