"""C28 Embedded queries return faithful answers across a query history.

Oracle: history + reference model.  Sequences of queries are sent to Machine::run_query of one
machine (through the worker's raw op, which serialises every LeafAnswer); for each query a random
prefix of the answer stream is consumed before the iterator is dropped.  The answers expected for a
query depend on the query alone (a Python model of the fact table and of the goal shapes), never on
the history: that is the "behaves as on a fresh machine" part."""
from .. import arith
from ..terms import mkint, mkatom, mklist, mkstr, mkc, mkvar, mkfloat, NIL, show, to_text, rename_canonical, bits2f
from ..worker import WorkerDied, WorkerTimeout

ID = 'C28'
LEVEL = 'exploration'
RULE = ('histories of 3-10 queries on one machine over a fact table t/3 of 6 rows: table calls with 0-2 arguments given, member/2 '
        'enumerations, deterministic unifications with atoms, integers incl. 2^70, floats, strings, lists, structures with unbound '
        'variables, failing goals, goals that throw at the first / k-th / last solution, conjunctions with cuts, goals without '
        'variables; per query the whole stream or a prefix of 0-3 answers is consumed; stream shape: the expected answers in order, an '
        'optional false marker, then the end of the iterator; an exception is reported once and ends the stream. distinct = distinct '
        '(history prefix, query, take); non-trivial = query preceded by a partially consumed or throwing query')
PARAMS = {'quick': {'n': 60}, 'thorough': {'n': 6000}}
MIN_EVAL = {'quick': 3000, 'thorough': 300000}
STRATA = ['deterministic', 'nondeterministic', 'failing', 'throwing', 'no-variables', 'partial-consumption', 'after-partial', 'after-exception', 'after-failure', 'partial-list-answer']
ASSUMPTIONS = ['after the last answer the stream may deliver one false marker before it ends (the engine cannot always know that an answer was the last)',
               'answers are compared up to renaming of variables within one answer']

ROWS = [('a', 1, 'x'), ('b', 2, 'y'), ('a', 3, 'z'), ('c', 1, 'x'), ('b', 2, 'x'), ('a', 1, 'y')]
PROGRAM = ''.join('c28_t(%s, %d, %s).\n' % r for r in ROWS) + 'c28_nth(N, X) :- nth1(N, [p, q, r], X).\n'


def conv(j):
    if 'i' in j:
        return mkint(int(j['i']))
    if 'a' in j:
        return mkatom(j['a'])
    if 's' in j:
        return mkstr(j['s'])
    if 'l' in j:
        return mklist([conv(x) for x in j['l']])
    if 'c' in j:
        return mkc(j['c'], *[conv(x) for x in j['args']])
    if 'v' in j:
        return ('v', 'raw_' + j['v'])
    if 'f' in j:
        return mkfloat(bits2f(int(j['bits'])))
    if 'r' in j:
        return ('other', j['r'])
    return ('other', str(j))


def gen_query(rng):
    """-> (text, kind, expected list of {var: term} | ('throws', n_before, ball))"""
    r = rng.random()
    if r < 0.3:
        bound = {}
        for i in range(3):
            if rng.random() < 0.3:
                bound[i] = rng.choice(ROWS)[i]
        names = ['X', 'Y', 'Z']
        args = [str(bound[i]) if i in bound else names[i] for i in range(3)]
        sols = [{names[i]: (mkint(r_[i]) if isinstance(r_[i], int) else mkatom(r_[i])) for i in range(3) if i not in bound} for r_ in ROWS if all(r_[i] == v for i, v in bound.items())]
        kind = 'failing' if not sols else 'no-variables' if len(bound) == 3 else 'nondeterministic' if len(sols) > 1 else 'deterministic'
        return 'c28_t(%s).' % ', '.join(args), kind, sols
    if r < 0.42:
        items = rng.sample(['a', 'b', 'c', '1', '2', 'f(x)', '"s"'], rng.randint(1, 4))
        tm = {'a': mkatom('a'), 'b': mkatom('b'), 'c': mkatom('c'), '1': mkint(1), '2': mkint(2), 'f(x)': mkc('f', mkatom('x')), '"s"': mkstr('s')}
        return 'member(X, [%s]).' % ', '.join(items), 'nondeterministic' if len(items) > 1 else 'deterministic', [{'X': tm[i]} for i in items]
    if r < 0.62:
        val, t = rng.choice([('abc', mkatom('abc')), ('1180591620717411303424', mkint(2 ** 70)), ('-7', mkint(-7)), ('1.5', mkfloat(1.5)), ('"hello"', mkstr('hello')),
                             ('[a, b, c]', mklist([mkatom('a'), mkatom('b'), mkatom('c')])), ('f(Y, Y, g(Z))', mkc('f', mkvar(1), mkvar(1), mkc('g', mkvar(2)))),
                             ('[]', NIL), ("'hello world'", mkatom('hello world')), ('[1, [2, 3], "x"]', mklist([mkint(1), mklist([mkint(2), mkint(3)]), mkstr('x')]))])
        return 'X = %s.' % val, 'deterministic', [{'X': t}]
    if r < 0.7:
        return rng.choice(['fail.', 'c28_t(zz, _, _).', '1 = 2.', 'member(X, []).']), 'failing', []
    if r < 0.85:
        k = rng.randint(1, 3)
        return 'c28_nth(N, X), ( N =:= %d -> throw(c28_ball(N)) ; true ).' % k, 'throwing', ('throws', [{'N': mkint(i + 1), 'X': mkatom('pqr'[i])} for i in range(k - 1)], mkc('c28_ball', mkint(k)))
    if r < 0.93:
        return rng.choice(['true.', 'c28_t(a, 1, x).', 'atom(abc).']), 'no-variables', [{}]
    if r < 0.97:
        return 'c28_t(X, _, _), !.', 'deterministic', [{'X': mkatom('a')}]
    return 'X = [a|b].', 'partial-list-answer', [{'X': mklist([mkatom('a')], mkatom('b'))}]


def shard(ctx):
    rec = ctx.rec
    rng = ctx.rng
    w = ctx.worker()
    setup = [{'op': 'raw', 'query': 'use_module(library(lists)).'}, {'op': 'load', 'module': 'user', 'text': PROGRAM}]
    for h in range(ctx.params['n']):
        w.job({'op': 'new'})
        w.setup(setup)
        tainted = False      # an exception or a partially consumed stream earlier in this machine's history
        jobs = list(setup)
        prev = None
        for step in range(rng.randint(3, 10)):
            text, kind, expected = gen_query(rng)
            throws = isinstance(expected, tuple)
            sols = expected[1] if throws else expected
            total = len(sols) + (1 if throws else 0)
            take = None if rng.random() < 0.5 else rng.randint(0, 3)
            job = {'op': 'raw', 'query': text}
            if take is not None:
                job['take'] = take
            jobs.append(job)
            try:
                rep = w.job(job, timeout=4)
            except (WorkerDied, WorkerTimeout) as e:
                rec.violation({'kind': 'query_does_not_return' if isinstance(e, WorkerTimeout) else 'worker_died', 'query_kind': kind, 'history_had_exception_or_partial': tainted},
                              {'query': text, 'jobs': jobs})
                break
            rec.case(kind, (text, take))
            if take is not None and take < total:
                rec.case('partial-consumption', (text, take, 'p'))
            if prev:
                rec.case(prev, (text, take, prev), nontrivial=True)
            why = None
            if rep.get('panic'):
                why = 'panic'
            else:
                raw = rep.get('raw', [])
                got = []
                for a in raw:
                    k = a.get('k')
                    if k == 'bindings':
                        got.append(('sol', {n: conv(t) for n, t in a['b'].items()}))
                    elif k == 'true':
                        got.append(('sol', {}))
                    elif k == 'false':
                        got.append(('false',))
                    elif k == 'exception':
                        got.append(('exc', conv(a['t'])))
                    elif k == 'end':
                        got.append(('end',))
                    else:
                        got.append(('other', str(a)[:100]))
                why = judge(got, sols, expected[2] if throws else None, take)
            if why:
                sig = {'kind': why, 'query_kind': kind, 'taken': 'all' if take is None else 'prefix', 'after': prev or 'start', 'history_had_exception_or_partial': tainted}
                if rep.get('panic'):
                    sig['file'] = rep['panic'].get('file', '').replace('/repo/', '')
                    sig['line'] = rep['panic'].get('line')
                rec.violation(sig, {'query': text, 'take': take, 'expected': [{k: show(v) for k, v in s.items()} for s in sols] + (['throws ' + show(expected[2])] if throws else []),
                                    'observed': str(rep.get('raw') or rep.get('panic'))[:600], 'jobs': jobs})
                break      # the machine is no longer trustworthy for this history
            if throws or (take is not None and take < total):
                tainted = True
            prev = 'after-exception' if throws and (take is None or take >= total) else 'after-partial' if take is not None and take < total else 'after-failure' if kind == 'failing' else None
        if len(rec.samples) < 4 and h % 37 == 0:
            rec.sample({'history': [j.get('query') for j in jobs if j.get('op') == 'raw'][1:6]})


def same_bindings(g, e):
    if set(g) != set(e):
        return False
    names = sorted(g)
    return rename_canonical(mkc('b', *[g[n] for n in names])) == rename_canonical(mkc('b', *[e[n] for n in names]))


def judge(got, sols, ball, take):
    """got: list of items; expected stream: sols in order, then exception (if ball) or optional false, then end"""
    stream = [('sol', s) for s in sols] + ([('exc', ball)] if ball is not None else [])
    if take is not None:
        want_n = min(take, len(stream) + 2)
        if len(got) > take and not (len(got) == take + 0):
            pass
        items = got
        # a prefix: compare what was taken
        for i, it in enumerate(items):
            if i < len(stream):
                if not item_ok(it, stream[i]):
                    return 'answer_%d_differs' % min(i, 3)
            else:
                if it[0] not in ('false', 'end'):
                    return 'extra_answer_after_the_last_solution'
        if len(items) < min(take, len(stream)):
            return 'stream_shorter_than_requested_prefix'
        return None
    i = 0
    for s in stream:
        if i >= len(got) or not item_ok(got[i], s):
            return 'answer_%d_differs' % min(i, 3) if i < len(got) else 'stream_ends_early'
        i += 1
    rest = got[i:]
    if ball is not None:
        return None if rest == [('end',)] else 'stream_continues_after_exception'
    if rest in ([('end',)], [('false',), ('end',)]):
        return None
    return 'stream_end_malformed'


def item_ok(it, want):
    if it[0] != want[0]:
        return False
    if it[0] == 'sol':
        return same_bindings(it[1], want[1])
    if it[0] == 'exc':
        return rename_canonical(it[1]) == rename_canonical(want[1])
    return True
