"""C20 Strings behave exactly like the character lists they denote.

Oracle: differential between storage layouts of the same abstract char list (string literal,
list consed cell by cell at run time, atom_chars result, partial_string/3 + tail, appended
segments, findall copy, database round trip), plus the reference value where it is obvious."""
from .. import arith
from ..terms import (mkint, mkatom, mklist, mkstr, NIL, to_text, show, rename_canonical, dq_string, quote_atom)

ID = 'C20'
LEVEL = 'exploration'
RULE = ('texts of length 0-17, 23-25, 31-33, 63-65, 255-257 (8-byte cell and sentinel boundaries) over ASCII, 2/3/4-byte UTF-8 '
        'characters placed to straddle cell boundaries, and NUL characters at first/middle/last position; each text is built in 8 '
        'storage layouts (string literal, consed at run time, atom_chars, partial_string/3 with its tail closed later, append of '
        'two segments at every split point class, findall copy, assert/retrieve, char-by-char list of variables bound afterwards) '
        'and 24 operations are applied to every layout (and to pairs of layouts): =, ==, compare/3, @<, length, append modes, '
        'nth0, reverse, arg/functor/=.. on the list cell, copy_term, sort, atom_chars/atom_codes back-conversion, atom_length, '
        'ground, term_variables on open tails, writeq text, unification against partial lists at split points. All layouts must '
        'give identical observations (and the known value). distinct = distinct (text, layout, operation); non-trivial = all')
PARAMS = {'quick': {'n': 28}, 'thorough': {'n': 2000}}
MIN_EVAL = {'quick': 50000, 'thorough': 4000000}
ASSUMPTIONS = ['double_quotes=chars (default)', 'only agreement between layouts, plus obvious reference values (length, reverse, nth0)']

LENS = list(range(0, 18)) + [23, 24, 25, 31, 32, 33, 63, 64, 65]
LONG = [255, 256, 257]
BOUNDARY_CHARS = ['\x01', 'a', '\x7f', '\x80', 'é', '\u07ff', '\u0800', '日', '\uffff', '\U00010000', '\U0001F600', '\U0003FFFF', '\U00040000', '\U00100000', '\U0010FFFF']
SETUP = ":- dynamic(c20d/1).\n"


def gen_text(rng, i):
    n = rng.choice(LENS) if i % 9 else rng.choice(LONG)
    kind = i % 5
    if kind == 0:
        return ''.join(rng.choice('abcxyz') for _ in range(n))
    if kind == 1:
        return ''.join(rng.choice(['a', 'b', 'é', 'ß', '日', '本', '\U0001F600', 'z', '\U00100000']) for _ in range(n))
    if kind == 2 and n > 0:
        s = [rng.choice('abc') for _ in range(n)]
        for pos in set([0, n // 2, n - 1][:rng.randint(1, 3)]):
            s[pos] = '\x00'
        return ''.join(s)
    if kind == 3:
        # multibyte char straddling the 8-byte boundary: k ascii then a 2-4 byte char
        k = rng.choice([5, 6, 7, 13, 14, 15])
        base = 'a' * k + rng.choice(['é', '日', '\U0001F600'])
        return (base + 'b' * max(0, n - len(base)))[:max(n, k + 1)]
    return ''.join(rng.choice('ab ') for _ in range(n))


def chars_list_text(s):
    return '[' + ','.join(quote_char(c) for c in s) + ']'


def quote_char(c):
    from ..terms import atom_operand
    return atom_operand(c)


def layouts(s, rng):
    """name -> goal text that binds L"""
    L = {}
    L['literal'] = 'L = %s' % dq_string(s)
    # consed at run time, cell by cell (the reader cannot pack it into a string)
    steps = ['T0 = []']
    for j, c in enumerate(reversed(s)):
        steps.append('T%d = [%s|T%d]' % (j + 1, quote_char(c), j))
    steps.append('L = T%d' % len(s))
    L['consed'] = ', '.join(steps)
    if '\x00' not in s:
        L['atom_chars'] = 'atom_chars(%s, L)' % quote_atom(s)
    L['partial_string'] = 'partial_string(%s, L, Tail), Tail = []' % dq_string(s) if s and '\x00' not in s else 'L = %s' % dq_string(s)
    k = rng.randint(0, len(s))
    L['appended@%s' % ('0' if k == 0 else ('end' if k == len(s) else 'mid'))] = 'append(%s, %s, L)' % (dq_string(s[:k]), dq_string(s[k:]))
    L['findall-copy'] = 'findall(X0, X0 = %s, [L])' % dq_string(s)
    L['assert-retrieve'] = 'retractall(c20d(_)), assertz(c20d(%s)), c20d(L)' % dq_string(s)
    vs = ['V%d' % j for j in range(len(s))]
    L['vars-bound-later'] = 'L = [%s]%s' % (','.join(vs), ''.join(', %s = %s' % (v, quote_char(c)) for v, c in zip(vs, s)))
    return L


def operations(s, rng):
    """name -> (goal computing R from L, expected term or None)"""
    n = len(s)
    O = {}
    O['length'] = ('length(L, R)', mkint(n))
    O['reverse'] = ('reverse(L, R)', mkstr(s[::-1]))
    O['eq-literal'] = ('( L == %s -> R = y ; R = n )' % dq_string(s), mkatom('y'))
    O['unify-literal'] = ('( L = %s -> R = y ; R = n )' % dq_string(s), mkatom('y'))
    O['eq-explicit-list'] = ('( L == %s -> R = y ; R = n )' % chars_list_text(s), mkatom('y'))
    O['compare-literal'] = ('compare(R, L, %s)' % dq_string(s), mkatom('='))
    O['compare-longer'] = ('compare(R, L, %s)' % dq_string(s + 'a'), mkatom('<'))
    if n:
        k = rng.randrange(n)
        O['nth0'] = ('nth0(%d, L, R)' % k, mkatom(s[k]))
        O['compare-changed'] = ('compare(R, L, %s)' % dq_string(s[:k] + chr(ord(s[k]) + 1) + s[k + 1:]), mkatom('<'))
        # first difference between characters of different UTF-8 length classes (1/2/3/4 bytes, and both 4-byte lead bytes)
        c2 = rng.choice([c for c in BOUNDARY_CHARS if c != s[k]])
        O['compare-other-class'] = ('compare(R, L, %s)' % dq_string(s[:k] + c2 + s[k + 1:]), mkatom('<' if s[k] < c2 else '>'),
                                    {'byte_len_pair': '%d-%d' % (len(s[k].encode()), len(c2.encode()))})
        c3 = rng.choice([c for c in BOUNDARY_CHARS if c != s[k]])
        O['lt-other-class'] = ('( L @< %s -> R = y ; R = n )' % dq_string(s[:k] + c3 + s[k + 1:] + 'q'), mkatom('y' if s[k] < c3 else 'n'),
                               {'byte_len_pair': '%d-%d' % (len(s[k].encode()), len(c3.encode()))})
        O['head-tail'] = ('L = [H|T], R = H-T', ('c', '-', (mkatom(s[0]), mkstr(s[1:]))))
        O['functor'] = ('functor(L, N, A), R = N/A', ('c', '/', (mkatom('.'), mkint(2))))
        O['arg2'] = ('arg(2, L, R)', mkstr(s[1:]))
        O['univ'] = ('L =.. R', mklist([mkatom('.'), mkatom(s[0]), mkstr(s[1:])]))
        O['last'] = ('append(_, [R], L)', mkatom(s[-1]))
        O['split-unify'] = ('( L = [%s|Rest] -> R = Rest ; R = none )' % ','.join(quote_char(c) for c in s[:k + 1]), mkstr(s[k + 1:]),
                            {'other_operand_bytes_mod8': len(s[:k + 1].encode()) % 8, 'other_operand_bytes_ge8': len(s[:k + 1].encode()) >= 8})
        O['lt-shorter-prefix'] = ('( %s @< L -> R = y ; R = n )' % dq_string(s[:-1]), mkatom('y'),
                                  {'other_operand_bytes_mod8': len(s[:-1].encode()) % 8, 'other_operand_bytes_ge8': len(s[:-1].encode()) >= 8})
    else:
        O['is-nil'] = ('( L == [] -> R = y ; R = n )', mkatom('y'))
    k = rng.randint(0, n)
    O['append-split'] = ('( append(%s, R0, L) -> R = R0 ; R = none )' % dq_string(s[:k]), mkstr(s[k:]))
    O['append-enum-count'] = ('findall(X-Y, append(X, Y, L), Ps), length(Ps, R)', mkint(n + 1)) if n <= 33 else ('length(L, R)', mkint(n))
    O['append-suffix'] = ('append(L, "xy", R)', mkstr(s + 'xy'))
    O['copy_term'] = ('copy_term(L, R)', mkstr(s))
    O['ground'] = ('( ground(L) -> R = y ; R = n )', mkatom('y'))
    O['term_variables'] = ('term_variables(f(L, Z, L), Vs), length(Vs, R)', mkint(1))
    O['sort'] = ('sort(L, R)', mklist([mkatom(c) for c in sorted(set(s), key=lambda c: ord(c))]))
    O['in-struct-compare'] = ('compare(R, f(L, 1), f(%s, 2))' % dq_string(s), mkatom('<'))
    if '\x00' not in s:
        O['atom_chars-back'] = ('atom_chars(R, L)', mkatom(s))
        O['atom_length'] = ('atom_chars(A, L), atom_length(A, R)', mkint(n))
        O['atom_codes-back'] = ('atom_chars(A, L), atom_codes(A, R)', mklist([mkint(ord(c)) for c in s]))
    O['writeq'] = ('write_term_to_chars(L, [quoted(true)], R)', None)
    O['msort-of-pairs'] = ('keysort([L-1, %s-2, "!"-3], R)' % dq_string(s), None)
    return O


def shard(ctx):
    rec = ctx.rec
    rng = ctx.rng
    w = ctx.worker()
    w.use_modules(['lists', 'charsio', 'iso_ext'], extra_jobs=[{'op': 'load', 'module': 'user', 'text': SETUP}])
    n = ctx.params['n']
    seen = set()
    for i in range(n):
        s = gen_text(rng, i + ctx.shard * 3)
        if s in seen:
            continue
        seen.add(s)
        lay = layouts(s, rng)
        ops = operations(s, rng)
        for oname, opdef in ops.items():
            ogoal, expected = opdef[0], opdef[1]
            feat = opdef[2] if len(opdef) > 2 else {}
            results = {}
            for lname, lgoal in lay.items():
                goal = '%s, %s' % (lgoal, ogoal)
                o = arith.run_goal(w, goal, var='R', timeout=30)
                rec.case('op:' + oname, (s, lname, oname))
                rec.strata['layout:' + lname.split('@')[0]] += 1
                rec.info['observations'] += 1
                results[lname] = (o, goal)
            base_o, base_goal = results['literal']
            for lname, (o, goal) in results.items():
                if o[0] == 'timeout':
                    rec.inconc('timeout')
                    continue
                bad = None
                if canon(o) != canon(base_o):
                    bad = 'layout_differs_from_literal'
                elif expected is not None and (o[0] != 'val' or rename_canonical(o[1]) != rename_canonical(expected)):
                    bad = 'wrong_value' if o[0] == 'val' else o[0]
                if bad is None:
                    continue
                sig = {'kind': bad, 'op': oname, 'layout': lname.split('@')[0], 'has_nul': '\x00' in s,
                       'len_class': 'empty' if not s else ('<8' if len(s.encode()) < 8 else '>=8')}
                sig.update(feat)
                sig['how'] = o[0]
                arith.panic_sig(sig, o)
                rec.violation(sig, {'text': s, 'goal': goal, 'observed': arith.show_obs(o)[:500], 'with_literal': arith.show_obs(base_o)[:500],
                                    'expected': show(expected)[:300] if expected is not None else None,
                                    'jobs': [{'op': 'raw', 'query': 'use_module(library(lists)), use_module(library(charsio)), use_module(library(iso_ext)).'},
                                             {'op': 'load', 'module': 'user', 'text': SETUP},
                                             {'op': 'run', 'goal': goal + ' .', 'limit': 2, 'pred': 'runr'}, {'op': 'run', 'goal': base_goal + ' .', 'limit': 2, 'pred': 'runr'}]})
        if len(rec.samples) < 4:
            rec.sample({'text': s, 'layouts': sorted(lay), 'operations': sorted(ops)})


def canon(o):
    if o[0] == 'val':
        return ('val', rename_canonical(o[1]))
    return o
