"""C17 Malformed input never crashes or desynchronises the reader.

Oracle: process-level observation (panic / crash / no termination of the read loop) plus a
resynchronisation model: valid sentinel clauses before the damaged clause must be read
intact, and the sentinel clauses that start after the damaged clause's end token must be
read intact again (unless the damage opened a quoted item or comment, which may legitimately
swallow text)."""
from .. import arith
from ..terms import mkint, mkc, mkatom, mklist, NIL, show, dq_string
from . import c15

ID = 'C17'
LEVEL = 'exploration'
RULE = ('files of the shape  ok(1). ok(2). <damaged clause> ok(3). ok(4).  where the damaged clause is a valid clause from the '
        'printed-term corpus with one mutation: delete/insert/replace a character with one from quotes, backslash, brackets, '
        'comma, bar, dot, 0\', /*, %, NUL, control characters, BOM, multi-byte characters; truncation; unterminated quoted '
        'atom/string/back-quote/block comment; invalid escapes; token soup; very long tokens (10^4 digits / characters); deep '
        'bracket nesting (depth 300). The file is read clause by clause with read_term/3 until end_of_file (read_term_from_chars '
        'for a sample). distinct = distinct file texts; non-trivial = all')
PARAMS = {'quick': {'n': 4000}, 'thorough': {'n': 150000}}
MIN_EVAL = {'quick': 20000, 'thorough': 1000000}
STRATA = ['layout-after-end', 'delete', 'insert', 'replace', 'truncate', 'unterminated', 'bad-escape', 'token-soup', 'long-token', 'deep-brackets']
ASSUMPTIONS = ['after a syntax error the reader is expected to have consumed input up to an end token; clauses that start after '
               'the damaged clause\'s own end token must be readable again',
               'mutations that introduce a quote, back-quote, 0\', % or /* may legitimately swallow following text: for those only '
               'termination, the prefix clauses and absence of crashes are asserted']

NASTY = ["'", '"', '`', '\\', '(', ')', '[', ']', '{', '}', ',', '|', '.', "0'", '/*', '*/', '%', '\x00', '\x01', '\x7f', '﻿',
         'é', '\U0001F600', ' ', '\n', '\t', '. ', ':-', '_', 'X', '0x', '1.0e', '0b', '\\x', "\\'", '!', ';', '-', '- ', '.(']
OPENERS = ["'", '"', '`', "0'", '/*', '%', '\\']
SETUP = """
c17_loop(S, N, L) :-
    (   N > 80 -> L = [too_many_reads]
    ;   catch(read_term(S, T, []), error(E, _), T = '$c17err'(E)),
        (   T == end_of_file -> L = []
        ;   nonvar(T), T = '$c17err'(E2) ->
            (   E2 = syntax_error(K) -> L = [syntax_error(K)|L1] ; L = [other_error(E2)|L1] ),
            N1 is N + 1, c17_loop(S, N1, L1)
        ;   L = [t(T)|L1], N1 is N + 1, c17_loop(S, N1, L1)
        )
    ).
"""


def valid_clause(rng):
    t = c15.term(rng, rng.choice([1, 2, 3]))
    return t


def mutate(rng, text, i):
    k = i % 9
    if k == 0 and text:
        p = rng.randrange(len(text))
        return 'delete', text[:p] + text[p + 1:], text[p]
    if k == 1:
        p = rng.randint(0, len(text))
        ins = rng.choice(NASTY)
        return 'insert', text[:p] + ins + text[p:], ins
    if k == 2 and text:
        p = rng.randrange(len(text))
        ins = rng.choice(NASTY)
        return 'replace', text[:p] + ins + text[p + 1:], ins
    if k == 3 and text:
        p = rng.randrange(len(text))
        return 'truncate', text[:p], ''
    if k == 4:
        q = rng.choice(["'abc", '"abc', '`abc', '/* never closed', "foo('", 'f("x', "'a\\'"])
        return 'unterminated', text + ' ' + q, q[0] if q[0] in '\'"`' else '/*'
    if k == 5:
        q = rng.choice(["'\\q'", "'\\x'", "'\\xZZ\\'", "'\\xFFFFFFFF\\'", '"\\x110000\\"', "'\\400\\'", "0'\\q", "'\\", "'\\x41'", "'a\\\nb'", "0'\\x"])
        return 'bad-escape', 'f(%s, %s)' % (q, text), "'"
    if k == 6:
        toks = ['(', ')', '[', ']', '{', '}', ',', '|', 'a', 'X', '1', '1.5', "'q'", '"s"', ':-', '-', '+', '*', 'is', '_', '.', '..', '0\'a', '!', ';', '->']
        return 'token-soup', ' '.join(rng.choice(toks) for _ in range(rng.randint(1, 14))), ''
    if k == 7:
        n = rng.choice([1000, 10000])
        q = rng.choice(['1' * n, 'a' * n, "'" + 'b' * n + "'", '"' + 'c' * n + '"', '1.' + '3' * n, '0x' + 'f' * n, 'X' * n, '+' * n])
        return 'long-token', 'f(%s)' % q, ''
    depth = rng.choice([50, 300])
    o, c = rng.choice([('(', ')'), ('[', ']'), ('{', '}'), ('f(', ')'), ('- ', ''), ('[a|', ']')])
    body = o * depth + 'x' + c * depth
    if rng.random() < 0.5:
        body = body[:-1]        # unbalanced
    return 'deep-brackets', body, ''


def shard(ctx):
    rec = ctx.rec
    rng = ctx.rng
    w = ctx.worker()
    w.use_modules(['lists', 'charsio'], extra_jobs=[{'op': 'load', 'module': 'user', 'text': SETUP}])
    n = ctx.params['n']
    seen = set()
    fpath = ctx.scratch_dir() + '/c17.pl'
    ok = lambda k: ('c', 't', (mkc('ok', mkint(k)),))
    # self-consistency: a character the reader accepts as layout between tokens must also end a clause after the end dot
    layouts = ['\n', ' ', '\t', '\r\n', ' % comment\n', '%c\n', '\n\n']
    for name, ch in (('vertical-tab', '\x0b'), ('form-feed', '\x0c'), ('carriage-return', '\r'), ('no-break-space', '\xa0'), ('ideographic-space', '\u3000')):
        with open(fpath, 'w', encoding='utf-8') as f:
            f.write('ok(%s1%s).\n' % (ch, ch))
        o = arith.run_goal(w, "open('%s', read, S), c17_loop(S, 0, R), close(S)" % fpath, var='R', timeout=40)
        is_layout = o == ('val', mklist([ok(1)]))
        rec.info['layout_between_tokens:' + name] = int(is_layout)
        if is_layout:
            layouts.append(ch)
            with open(fpath, 'w', encoding='utf-8') as f:
                f.write('ok(1).%sok(2).%sok(3).' % (ch, ch))
            o = arith.run_goal(w, "open('%s', read, S), c17_loop(S, 0, R), close(S)" % fpath, var='R', timeout=40)
            rec.case('layout-after-end', (name,))
            if o != ('val', mklist([ok(1), ok(2), ok(3)])):
                rec.violation({'kind': 'layout_character_does_not_end_clause', 'char': name},
                              {'file': 'ok(1).%sok(2).%sok(3).' % (ch, ch), 'observed': arith.show_obs(o)[:300], 'jobs': [{'op': 'load', 'module': 'user', 'text': SETUP}]})
    for i in range(n):
        t = valid_clause(rng)
        # the clause text as the engine itself prints it (valid, with operators)
        from ..terms import to_text
        base = to_text(t)
        st, damaged, what = mutate(rng, base, i + ctx.shard)
        # the character(s) after each end dot vary over everything the machine itself treats as layout (probed below)
        seps = [rng.choice(layouts) if rng.random() < 0.5 else '\n' for _ in range(5)]
        filetext = 'ok(1).%sok(2).%s%s .%sok(3).%sok(4).%s' % (seps[0], seps[1], damaged, seps[2], seps[3], seps[4])
        if filetext in seen:
            continue
        seen.add(filetext)
        with open(fpath, 'w', encoding='utf-8', errors='surrogatepass') as f:
            f.write(filetext)
        goal = "open('%s', read, S), c17_loop(S, 0, R), close(S)" % fpath
        o = arith.run_goal(w, goal, var='R', timeout=40)
        rec.case(st, filetext)
        rec.info['files_read'] += 1
        if o[0] == 'timeout':
            # bounded progress: re-run alone once with a larger budget before reporting
            o = arith.run_goal(w, goal, var='R', timeout=120)
            if o[0] == 'timeout':
                rec.violation({'kind': 'read_loop_does_not_terminate', 'stratum': st}, {'file': filetext[:2000], 'observed': 'no result within 40 s and again within 120 s'})
                continue
        bad = None
        items = None
        if o[0] == 'val' and (o[1] == NIL or (o[1][0] == 'l' and o[1][2] == NIL)):
            items = [] if o[1] == NIL else list(o[1][1])
            swallow = any(op in what or op in damaged for op in OPENERS) if st != 'deep-brackets' else False
            if 'end_of_file' in damaged:
                pass        # the damaged clause may be the term end_of_file itself, which ends the loop by design
            elif items and items[-1] == ('a', 'too_many_reads'):
                bad = 'reader_makes_no_progress'
                kinds = [x[2][0][1] for x in items[-6:-1] if x[0] == 'c' and x[1] == 'syntax_error' and x[2][0][0] == 'a']
                repeating = kinds[-1] if len(kinds) == 5 and len(set(kinds)) == 1 else 'mixed'
                if all(x[0] == 'c' and x[1] == 't' and x[2][0][0] == 'v' for x in items[-6:-1]):
                    repeating = 'reads_yield_fresh_variables'
            elif items[:2] != [ok(1), ok(2)]:
                bad = 'prefix_clauses_damaged'
            elif any(x[0] == 'c' and x[1] == 'other_error' for x in items):
                bad = 'non_syntax_error_raised'
            elif not swallow and st not in ('token-soup',) and items[-1:] != [ok(4)]:
                # the clause after the damaged clause's end token may be consumed by the error recovery ("ok(3)"),
                # but the reader must be back in step for the last one
                bad = 'not_resynchronised'
            elif not swallow and st in ('token-soup',) and '.' not in damaged.replace('..', '') and items[-1:] != [ok(4)]:
                bad = 'not_resynchronised'
        elif o[0] == 'unparsable':
            rec.info['dump_unparsable'] += 1
        else:
            bad = o[0] if o[0] != 'val' else 'garbled'
        if bad is None:
            if len(rec.samples) < 6 and i % 97 == 0:
                rec.sample({'damaged_clause': damaged[:200], 'kind': st, 'read': [show(x)[:60] for x in (items or [])]})
            continue
        sig = {'kind': bad}
        if bad == 'reader_makes_no_progress':
            sig['repeating_error'] = repeating
        else:
            sig['stratum'] = st
        arith.panic_sig(sig, o)
        rec.violation(sig, {'file': filetext[:3000], 'damage': st, 'observed': arith.show_obs(o)[:600],
                            'jobs': [{'op': 'load', 'module': 'user', 'text': SETUP}]})
