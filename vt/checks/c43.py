"""C43 op/3 and current_op/3 maintain a consistent operator table.

Oracle: history + reference model.  The model table starts from the engine's own
current_op/3 dump on a fresh machine and is updated by the ISO 8.14.3 rules; after every
op/3 call the full enumeration, the name-/specifier-/priority-bound reads and (at the end of
the history and after every 4th step) reader probes must agree with the model.

All goal text sent to the machine is operator-free (helper predicates c43_*/N loaded while the
table is still pristine), because the histories redefine and remove predefined operators."""
from .. import arith
from ..terms import mkint, mkatom, mklist, mkc, NIL, show, to_text

ID = 'C43'
LEVEL = 'exploration'
RULE = ('histories of 1-25 op/3 calls on fresh machines over the names + - * = :- \\+ mod foo bar baz \',\' \'|\' [] {} '
        '(single names and lists of 1-3 names), priorities 0 1 200 699 700 1000 1001 1200 1201 -1 a 1.0 _ and the seven specifiers '
        'plus invalid ones (yfy, foo, 1, _); after every call: current_op/3 enumeration as a set (and without duplicates) against the '
        'ISO model, name-bound / specifier-bound / priority-bound reads against the enumeration, table unchanged after a rejected '
        'call, error formal among the errors that apply; reader probes "zz N yy", "N zz", "zz N" for every name after every 4th call '
        'and at the end. distinct = distinct (table, call); non-trivial = call that changes the table or is rejected')
PARAMS = {'quick': {'n': 40}, 'thorough': {'n': 2500}}
MIN_EVAL = {'quick': 12000, 'thorough': 700000}
STRATA = ['add-new', 'redefine', 'remove', 'remove-absent', 'name-list', 'infix-postfix-conflict', 'protected-name', 'bar', 'bad-priority',
          'bad-specifier', 'bad-name', 'instantiation', 'bound-reads', 'current_op-errors', 'reader-probe-op', 'reader-probe-not-op']
ASSUMPTIONS = ['ISO 8.14.3 / Cor.2 rules; when several errors apply to one call any of them is accepted',
               'op(P, T, []) may either succeed without effect or raise permission_error(create, operator, []) (both readings of [] are defensible)',
               'a rejected call leaves the table unchanged, including calls with a list of names (property statement)']

HELPERS = r"""
c43_op(P0, T, N, R) :- c43_num(P0, P), catch((op(P, T, N) -> R = yes ; R = no), error(E, _), R = raised(E)).
c43_num(P0, P) :- nonvar(P0), P0 = neg(X), !, P is -X.
c43_num(P, P).
c43_table(L) :- findall(op(P,T,N), current_op(P,T,N), L).
c43_by_name(N, L) :- findall(P-T, current_op(P,T,N), L).
c43_by_spec(T, L) :- findall(P-N, current_op(P,T,N), L).
c43_by_prio(P, L) :- findall(T-N, current_op(P,T,N), L).
c43_read(Chars, R) :- catch((read_term_from_chars(Chars, T, []), R = term(T)), error(E, _), R = raised(E)).
c43_cur(P0, T, N, R) :- c43_num(P0, P), catch((findall(x, current_op(P,T,N), L), R = ok(L)), error(E, _), R = raised(E)).
"""

NAMES = ['+', '-', '*', '=', ':-', '\\+', 'mod', 'foo', 'bar', 'baz', ',', '|', '[]', '{}']
PLAIN_NAMES = ['+', '-', '*', '=', ':-', '\\+', 'mod', 'foo', 'bar', 'baz']
SPECS = ['xfx', 'xfy', 'yfx', 'fy', 'fx', 'xf', 'yf']
CLASS = {'xfx': 'in', 'xfy': 'in', 'yfx': 'in', 'fy': 'pre', 'fx': 'pre', 'xf': 'post', 'yf': 'post'}
PRIOS = ['0', '1', '200', '699', '700', '1000', '1001', '1200']


def name_text(n):
    if n == ',':
        return "(',')"
    if n == '|':
        return "('|')"
    if n in ('[]', '{}'):
        return n
    if n[0].isalpha():
        return n
    return '(%s)' % n


def table_from(t):
    """term list of op(P,T,N) -> (dict (name, class) -> (prio, spec), duplicates?)"""
    d = {}
    dup = False
    if t != NIL:
        for e in t[1]:
            p, s, n = e[2]
            key = (n[1], CLASS.get(s[1], s[1]))
            if key in d:
                dup = True
            d[key] = (p[1], s[1])
    return d, dup


def applicable_errors(p, t, names, table, is_list):
    """set of acceptable error formals (functor, first arg text) ; empty -> must succeed"""
    errs = set()
    if p == '_' or t == '_' or names == '_' or any(n == '_' for n in names):
        errs.add(('instantiation_error', None))
    pi = None
    if p != '_':
        try:
            pi = int(p)
            if not 0 <= pi <= 1200:
                errs.add(('domain_error', 'operator_priority'))
                pi = None
        except ValueError:
            errs.add(('type_error', 'integer'))
    spec_ok = t in SPECS
    if t != '_' and not spec_ok:
        if t.isalpha():
            errs.add(('domain_error', 'operator_specifier'))
        else:
            errs.add(('type_error', 'atom'))
    if names != '_':
        sim = dict(table)
        for n in names:
            if n == '_':
                continue
            if n in ('f(x)', '1'):
                errs.add(('type_error', 'atom'))
                if not is_list:
                    errs.add(('type_error', 'list'))
                continue
            if n == ',':
                errs.add(('permission_error', 'modify'))
                continue
            if n in ('[]', '{}'):
                errs.add(('permission_error', 'create'))
                continue
            if n == '|' and spec_ok and pi is not None:
                if CLASS[t] != 'in' or not (pi == 0 or pi >= 1001):
                    errs.add(('permission_error', 'create'))
                    continue
            if spec_ok and pi is not None and pi > 0:
                c = CLASS[t]
                if c == 'in' and (n, 'post') in sim or c == 'post' and (n, 'in') in sim:
                    errs.add(('permission_error', 'create'))
                    continue
            if spec_ok and pi is not None:
                if pi == 0:
                    sim.pop((n, CLASS[t]), None)
                else:
                    sim[(n, CLASS[t])] = (pi, t)
    return errs


def apply_model(p, t, names, table):
    new = dict(table)
    pi = int(p)
    for n in names:
        if pi == 0:
            new.pop((n, CLASS[t]), None)
        else:
            new[(n, CLASS[t])] = (pi, t)
    return new


def gen_call(rng, table):
    """-> (p, t, names(list of str), is_list, stratum)"""
    r = rng.random()
    is_list = False
    if r < 0.55:
        # valid-looking single name
        n = rng.choice(PLAIN_NAMES + (['|'] if rng.random() < 0.15 else []))
        t = rng.choice(SPECS)
        p = rng.choice(PRIOS)
        key = (n, CLASS[t])
        if p == '0':
            st = 'remove' if key in table else 'remove-absent'
        elif n == '|':
            st = 'bar'
        elif (CLASS[t] == 'in' and (n, 'post') in table) or (CLASS[t] == 'post' and (n, 'in') in table):
            st = 'infix-postfix-conflict'
        else:
            st = 'redefine' if key in table else 'add-new'
        return p, t, [n], False, st
    if r < 0.62:
        # removal of something that exists
        keys = [k for k in table if k[0] in PLAIN_NAMES or k[0] == '|']
        if keys:
            n, c = rng.choice(keys)
            return '0', table[(n, c)][1], [n], False, 'remove'
    if r < 0.75:
        k = rng.randint(1, 3)
        names = [rng.choice(PLAIN_NAMES + ([',', '|', '[]', '{}', '_', 'f(x)'] if rng.random() < 0.3 else [])) for _ in range(k)]
        return rng.choice(PRIOS), rng.choice(SPECS), names, True, 'name-list'
    if r < 0.82:
        return rng.choice(PRIOS), rng.choice(SPECS), [rng.choice([',', '[]', '{}'])], False, 'protected-name'
    if r < 0.86:
        return rng.choice(PRIOS), rng.choice(SPECS), ['|'], False, 'bar'
    if r < 0.90:
        return rng.choice(['1201', 'neg(1)', 'a', '1.0', '100000000000000000000']), rng.choice(SPECS), [rng.choice(PLAIN_NAMES)], False, 'bad-priority'
    if r < 0.94:
        return rng.choice(PRIOS), rng.choice(['yfy', 'foo', '1', 'f(x)', 'xfxx']), [rng.choice(PLAIN_NAMES)], False, 'bad-specifier'
    if r < 0.97:
        return rng.choice(PRIOS), rng.choice(SPECS), [rng.choice(['f(x)', '1'])], False, 'bad-name'
    p, t, n = rng.choice([('_', 'xfx', 'foo'), ('200', '_', 'foo'), ('200', 'xfx', '_'), ('_', '_', '_')])
    return p, t, [n], False, 'instantiation'


def prio_int(p):
    if p.startswith('neg('):
        return str(-int(p[4:-1]))
    return p


def names_text(names, is_list):
    if is_list:
        return '[' + ', '.join('_' if n == '_' else name_text(n) if n not in ('f(x)', '1') else n for n in names) + ']'
    n = names[0]
    return n if n in ('_', 'f(x)', '1') else name_text(n)


def shard(ctx):
    rec = ctx.rec
    rng = ctx.rng
    w = ctx.worker()
    setup = [{'op': 'raw', 'query': 'use_module(library(lists)), use_module(library(charsio)).'},
             {'op': 'load', 'module': 'user', 'text': HELPERS}]
    for h in range(ctx.params['n']):
        w.job({'op': 'new'})
        w.setup(setup)
        t0 = arith.run_goal(w, 'c43_table(R)', var='R', timeout=30)
        if t0[0] != 'val':
            rec.violation({'kind': 'initial_table_unreadable', 'how': t0[0]}, {'observed': arith.show_obs(t0)})
            continue
        table, dup = table_from(t0[1])
        if dup:
            rec.violation({'kind': 'duplicate_entry_in_enumeration', 'when': 'fresh'}, {'observed': arith.show_obs(t0)[:1500]})
        hist = []
        nsteps = rng.randint(1, 25)
        for step in range(nsteps):
            p, t, names, is_list, st = gen_call(rng, table)
            goal = 'c43_op(%s, %s, %s, R)' % (p, t, names_text(names, is_list))
            hist.append(goal)
            o = arith.run_goal(w, goal, var='R', timeout=30)
            t1 = arith.run_goal(w, 'c43_table(R)', var='R', timeout=30)
            if o[0] != 'val' or t1[0] != 'val':
                rec.violation({'kind': 'call_or_table_' + (o[0] if o[0] != 'val' else t1[0]), 'stratum': st},
                              {'history': list(hist), 'observed': arith.show_obs(o) + ' / ' + arith.show_obs(t1)[:300], 'jobs': jobs(hist)})
                break
            new, dup = table_from(t1[1])
            res = o[1]
            outcome = res[1] if res[0] == 'a' else 'raised'
            pp = prio_int(p)
            errs = applicable_errors(pp, t, names, table, is_list)
            rec.case(st, (goal, frozenset(table.items())))
            bad = None
            if dup:
                bad = 'duplicate_entry_in_enumeration'
            elif names == ['[]'] and not is_list and not (errs - {('permission_error', 'create')}):
                # op(P, T, []): empty list of names or the protected name []
                if outcome == 'no' or (outcome == 'raised' and formal_key(res) != ('permission_error', 'create')):
                    bad = 'wrong_outcome_for_empty_name_list'
                elif new != table:
                    bad = 'table_changed_by_rejected_call'
            elif errs:
                if outcome != 'raised':
                    bad = 'invalid_call_not_rejected'
                elif formal_key(res) not in errs:
                    bad = 'wrong_error'
                elif new != table:
                    bad = 'table_changed_by_rejected_call'
            else:
                want = apply_model(pp, t, names, table)
                if outcome != 'yes':
                    bad = 'valid_call_rejected'
                elif new != want:
                    bad = 'table_differs_from_model'
            if bad:
                diff = sorted(set(new.items()) ^ set(table.items()))[:6]
                rec.violation({'kind': bad, 'stratum': st, 'error': show(res)[:60] if outcome == 'raised' and bad == 'wrong_error' else None},
                              {'history': list(hist), 'observed': arith.show_obs(o), 'applicable_errors': sorted(map(str, errs)),
                               'table_diff_before_after': [str(x) for x in diff], 'jobs': jobs(hist)})
            table = new
            bound_reads(rec, rng, w, table, hist)
            if step % 4 == 3 or step == nsteps - 1:
                reader_probes(rec, rng, w, table, hist)
        if len(rec.samples) < 4:
            rec.sample({'history': hist[:8]})


def formal_key(res):
    f = res[2][0]
    if f[0] == 'a':
        return (f[1], None)
    a0 = f[2][0]
    return (f[1], a0[1] if a0[0] == 'a' else None)


def jobs(hist):
    return ([{'op': 'new'}, {'op': 'raw', 'query': 'use_module(library(lists)), use_module(library(charsio)).'},
             {'op': 'load', 'module': 'user', 'text': HELPERS}]
            + [{'op': 'run', 'goal': g + ' .', 'limit': 2, 'pred': 'runr'} for g in hist]
            + [{'op': 'run', 'goal': 'c43_table(R) .', 'limit': 2, 'pred': 'runr'}])


def as_items(t):
    return [] if t == NIL else list(t[1])


CUR_ERRS = [('a', '_', '_', ('type_error', 'domain_error')), ('1201', '_', '_', ('domain_error',)), ('neg(1)', '_', '_', ('domain_error',)),
            ('_', 'foo', '_', ('domain_error',)), ('_', 'f(x)', '_', ('type_error', 'domain_error')), ('_', '_', '1', ('type_error',)),
            ('_', '_', 'f(x)', ('type_error',)), ('1.5', 'xfx', 'foo', ('type_error', 'domain_error'))]


def current_op_errors(rec, rng, w, hist):
    p, t, n, want = rng.choice(CUR_ERRS)
    goal = 'c43_cur(%s, %s, %s, R)' % (p, t, n)
    o = arith.run_goal(w, goal, var='R', timeout=30)
    rec.case('current_op-errors', (goal,))
    ok = o[0] == 'val' and o[1][0] == 'c' and o[1][1] == 'raised' and o[1][2][0][0] == 'c' and o[1][2][0][1] in want
    if not ok:
        rec.violation({'kind': 'current_op_bad_argument_not_rejected', 'args': '%s,%s,%s' % (p, t, n)},
                      {'history': list(hist), 'goal': goal, 'observed': arith.show_obs(o)[:300],
                       'jobs': jobs(hist) + [{'op': 'run', 'goal': goal + ' .', 'limit': 2, 'pred': 'runr'}]})


def bound_reads(rec, rng, w, table, hist):
    if rng.random() < 0.15:
        current_op_errors(rec, rng, w, hist)
    kind = rng.choice(['name', 'spec', 'prio'])
    if kind == 'name':
        n = rng.choice(NAMES)
        goal = 'c43_by_name(%s, R)' % name_text(n)
        want = sorted((p, s) for (nm, c), (p, s) in table.items() if nm == n)
        o = arith.run_goal(w, goal, var='R', timeout=30)
        got = sorted((e[2][0][1], e[2][1][1]) for e in as_items(o[1])) if o[0] == 'val' else None
    elif kind == 'spec':
        t = rng.choice(SPECS)
        goal = 'c43_by_spec(%s, R)' % t
        want = sorted((p, nm) for (nm, c), (p, s) in table.items() if s == t)
        o = arith.run_goal(w, goal, var='R', timeout=30)
        got = sorted((e[2][0][1], e[2][1][1]) for e in as_items(o[1])) if o[0] == 'val' else None
    else:
        p0 = rng.choice([200, 700, 1200, 1, 699, 1000, 1001, 400, 500])
        goal = 'c43_by_prio(%d, R)' % p0
        want = sorted((s, nm) for (nm, c), (p, s) in table.items() if p == p0)
        o = arith.run_goal(w, goal, var='R', timeout=30)
        got = sorted((e[2][0][1], e[2][1][1]) for e in as_items(o[1])) if o[0] == 'val' else None
    rec.case('bound-reads', (goal, frozenset(table.items())))
    if got != want:
        rec.violation({'kind': 'bound_read_differs_from_enumeration', 'mode': kind},
                      {'history': list(hist), 'goal': goal, 'observed': arith.show_obs(o)[:400], 'expected': str(want)[:400],
                       'jobs': jobs(hist) + [{'op': 'run', 'goal': goal + ' .', 'limit': 2, 'pred': 'runr'}]})


def reader_probes(rec, rng, w, table, hist):
    for n in PLAIN_NAMES + ['|']:
        for c, text, want in (('in', 'zz %s yy .' % n, mkc(n, mkatom('zz'), mkatom('yy'))),
                              ('pre', '%s zz .' % n, mkc(n, mkatom('zz'))),
                              ('post', 'zz %s .' % n, mkc(n, mkatom('zz')))):
            if n == '|' and c != 'in':
                continue
            is_op = (n, c) in table
            goal = 'c43_read("%s", R)' % text.replace('\\', '\\\\')
            o = arith.run_goal(w, goal, var='R', timeout=30)
            rec.case('reader-probe-op' if is_op else 'reader-probe-not-op', (text, is_op, tuple(sorted(k for k in table if k[0] == n))))
            if o[0] != 'val':
                ok = False
            elif is_op:
                ok = o[1] == mkc('term', want)
            else:
                ok = o[1][0] == 'c' and o[1][1] == 'raised' and o[1][2][0][0] == 'c' and o[1][2][0][1] == 'syntax_error'
            if not ok:
                rec.violation({'kind': 'reader_disagrees_with_table', 'class': c, 'is_op': is_op, 'name': n},
                              {'history': list(hist), 'goal': goal, 'observed': arith.show_obs(o)[:300],
                               'entries_for_name': [str((k, v)) for k, v in table.items() if k[0] == n],
                               'jobs': jobs(hist) + [{'op': 'run', 'goal': goal + ' .', 'limit': 2, 'pred': 'runr'}]})
