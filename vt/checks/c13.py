"""C13 compare/3 implements the standard order of terms.

Oracle: reference order (exactly the statement) + invariants (antisymmetry, ==-consistency,
transitivity on triples, agreement of the @-family with compare/3)."""
from .. import refterm, arith
from ..refterm import Unpredicted
from ..terms import (mkint, mkfloat, mkc, mkatom, mklist, mkvar, mkstr, mkrat, NIL, to_text, to_text_varied, show)
from ..gen import rand_int, rand_float, rand_rat, rand_term

ID = 'C13'
LEVEL = 'exploration'
RULE = ('pairs and triples of terms over variables, floats, integers of every size (literal and produced through bignum '
        'arithmetic), rationals, atoms of every lexical/storage class (inlined <=6 bytes, interned, non-ASCII), strings vs the '
        'same text as explicit lists (equal, differing at the k-th character, lengths around the 8-byte cell boundary), partial '
        'lists, compounds with same name/different arity and same arity/different name; each pair is compared with compare/3 in '
        'both directions and with == \\== @< @=< @> @>=; results must equal the reference order, and triples must be transitive. '
        'distinct = distinct (A,B) texts; non-trivial = operands are not both small integers or both plain atoms')
PARAMS = {'quick': {'n': 3000}, 'thorough': {'n': 150000}}
MIN_EVAL = {'quick': 60000, 'thorough': 3000000}
STRATA = ['class-mix', 'numbers', 'atoms', 'string-vs-list', 'string-diff-at-k', 'pstr-boundary', 'partial-list', 'compound-arity-name',
          'shared-vars', 'nested', 'triple']
ASSUMPTIONS = ['the order is the one the statement spells out (floats as a class before integers/rationals)',
               'order between two distinct variables is not predicted, only its consistency',
               '0.0 vs -0.0 order is not asserted']

ATOMS = ['a', 'b', 'ab', 'abc', 'abcdef', 'abcdefg', 'abcdefgh', 'abcdefghi', 'z', 'zz', 'é', 'è', 'zé', '日', '日本語', 'A', '_a', '[]', '{}', '',
         '+', '-', 'a b', "don't", '\U0001F600', 'aa', 'aaaaaa', 'aaaaaaa', 'b\x00', 'append', 'foo', 'true', 'nil', '.', '|']
TEXTS = ['', 'a', 'ab', 'abc', 'abcdef', 'abcdefg', 'abcdefgh', 'abcdefghi', 'abcdefghijklmno', 'abcdefghijklmnop', 'abcdefghijklmnopq',
         'héllo', '日本', 'a\x00b', 'abcdefgé', 'abcdefé', 'abcdeé']


def num(rng):
    r = rng.random()
    if r < 0.35:
        return mkint(rng.randint(-5, 5))
    if r < 0.55:
        return mkint(rand_int(rng))
    if r < 0.7:
        return rand_rat(rng)
    return mkfloat(rng.choice([float(rng.randint(-5, 5)), rand_float(rng), rng.uniform(-3, 3)]))


def gen_pair(rng, i):
    r = i % 11
    if r == 0:
        pool = [mkvar(0), num(rng), num(rng), mkatom(rng.choice(ATOMS)), mkstr(rng.choice(TEXTS)), rand_term(rng, 2, 2), mkc('f', mkint(1))]
        return 'class-mix', rng.choice(pool), rng.choice(pool)
    if r == 1:
        a = num(rng)
        b = num(rng) if rng.random() < 0.6 else a
        if rng.random() < 0.2 and a[0] == 'i':
            b = mkfloat(float(a[1])) if abs(a[1]) < 2 ** 53 else b
        return 'numbers', a, b
    if r == 2:
        return 'atoms', mkatom(rng.choice(ATOMS)), mkatom(rng.choice(ATOMS))
    if r == 3:
        s = rng.choice(TEXTS)
        return 'string-vs-list', mkstr(s), mkstr(s if rng.random() < 0.5 else rng.choice(TEXTS))
    if r == 4:
        s = rng.choice(TEXTS[3:])
        k = rng.randrange(len(s))
        t = s[:k] + rng.choice(['a', 'z', 'é', '\x01']) + s[k + 1:]
        if rng.random() < 0.3:
            t = s[:k]
        return 'string-diff-at-k', mkstr(s), mkstr(t)
    if r == 5:
        n = rng.choice([6, 7, 8, 9, 15, 16, 17, 23, 24, 25])
        s = ''.join(rng.choice('abc') for _ in range(n))
        t = s[:-1] + rng.choice('abc') if rng.random() < 0.7 else s + 'a'
        return 'pstr-boundary', mkc('f', mkstr(s), mkint(1)), mkc('f', mkstr(t), mkint(1))
    if r == 6:
        s = rng.choice(TEXTS[1:8])
        a = mklist([mkatom(c) for c in s], mkvar(0))
        b = rng.choice([mklist([mkatom(c) for c in s], mkvar(0)), mkstr(s), mklist([mkatom(c) for c in s], mkatom('x')),
                        mklist([mkatom(c) for c in s[:-1]] + [mkint(1)])])
        return 'partial-list', a, b
    if r == 7:
        n1, n2 = rng.choice(['f', 'g', 'ff', 'é', '-', 'a']), rng.choice(['f', 'g', 'ff', 'é', '-', 'a'])
        a = mkc(n1, *[mkint(rng.randint(0, 2)) for _ in range(rng.randint(1, 3))])
        b = mkc(n2, *[mkint(rng.randint(0, 2)) for _ in range(rng.randint(1, 3))])
        return 'compound-arity-name', a, b
    if r == 8:
        a = rand_term(rng, 2, 2, floats=False)
        b = a if rng.random() < 0.4 else rand_term(rng, 2, 2, floats=False)
        return 'shared-vars', a, b
    a = rand_term(rng, 3, 0)
    b = rand_term(rng, 3, 0) if rng.random() < 0.7 else a
    return 'nested', a, b


ORD = {-1: '<', 0: '=', 1: '>'}
FLAGS = ['==', '\\==', '@<', '@=<', '@>', '@>=']


def expected_flags(c):
    return [c == 0, c != 0, c < 0, c <= 0, c > 0, c >= 0]


def goal_for(ta, tb, pre):
    flags = ', '.join("( A %s B -> F%d = t ; F%d = f )" % (op, k, k) for k, op in enumerate(FLAGS))
    return '%sA = %s, B = %s, compare(O1, A, B), compare(O2, B, A), %s, R = [O1,O2,%s]' % (
        ''.join(p + ', ' for p in pre), ta, tb, flags, ','.join('F%d' % k for k in range(6)))


def shard(ctx):
    rec = ctx.rec
    rng = ctx.rng
    w = ctx.worker()
    w.use_modules(['lists'])
    n = ctx.params['n']
    seen = set()
    for i in range(n):
        if i % 12 == 11:
            triple(ctx, w, rng)
            continue
        st, a, b = gen_pair(rng, i + ctx.shard)
        pre = []
        ta = to_text_varied(a, rng, pre)
        tb = to_text_varied(b, rng, pre)
        key = (ta, tb, tuple(pre))
        if key in seen:
            continue
        seen.add(key)
        try:
            c = refterm.compare(a, b)
        except Unpredicted:
            c = None
        nontriv = not ((a[0] == 'i' and b[0] == 'i' and abs(a[1]) < 2 ** 31 and abs(b[1]) < 2 ** 31) or (a[0] == 'a' and b[0] == 'a' and a[1].isascii() and b[1].isascii()))
        rec.case(st, key, nontrivial=nontriv, n=8)
        obs = arith.run_goal(w, goal_for(ta, tb, pre), var='R')
        rec.info['comparisons_observed'] += 8
        bad = None
        got = None
        if obs[0] == 'timeout':
            rec.inconc('timeout')
            continue
        if obs[0] != 'val' or obs[1][0] != 'l' or len(obs[1][1]) != 8:
            bad = obs[0] if obs[0] != 'val' else 'garbled'
        else:
            got = [x[1] for x in obs[1][1]]
            o1, o2 = got[0], got[1]
            fl = [g == 't' for g in got[2:]]
            inv = {'<': '>', '>': '<', '=': '='}
            if inv.get(o1) != o2:
                bad = 'not_antisymmetric'
            elif o1 in inv and fl != expected_flags({'<': -1, '=': 0, '>': 1}[o1]):
                bad = 'family_disagrees_with_compare'
            elif c is not None and o1 != ORD[c]:
                bad = 'wrong_order'
        if bad is None:
            if len(rec.samples) < 6 and i % 23 == 0:
                rec.sample({'A': ta, 'B': tb, 'pre': pre, 'observed': got, 'expected': ORD.get(c)})
            continue
        sig = {'kind': bad, 'stratum': st, 'kinds': a[0] + b[0]}
        arith.panic_sig(sig, obs)
        rec.violation(sig, {'A': ta, 'B': tb, 'pre': pre, 'expected_compare': ORD.get(c), 'observed': arith.show_obs(obs),
                            'jobs': [{'op': 'run', 'goal': goal_for(ta, tb, pre) + ' .', 'limit': 2}]})


def triple(ctx, w, rng):
    rec = ctx.rec
    ts = []
    base = rng.randrange(11)
    _, a, b = gen_pair(rng, base)
    _, c, _ = gen_pair(rng, base)
    pre = []
    texts = [to_text_varied(t, rng, pre) for t in (a, b, c)]
    goal = '%sA = %s, B = %s, C = %s, compare(O1,A,B), compare(O2,B,C), compare(O3,A,C), R = [O1,O2,O3]' % (
        ''.join(p + ', ' for p in pre), texts[0], texts[1], texts[2])
    rec.case('triple', (tuple(texts), tuple(pre)), n=3)
    obs = arith.run_goal(w, goal, var='R')
    rec.info['comparisons_observed'] += 3
    if obs[0] == 'timeout':
        rec.inconc('timeout')
        return
    bad = None
    if obs[0] != 'val' or obs[1][0] != 'l' or len(obs[1][1]) != 3:
        bad = obs[0] if obs[0] != 'val' else 'garbled'
    else:
        o = [x[1] for x in obs[1][1]]
        v = {'<': -1, '=': 0, '>': 1}
        if all(x in v for x in o):
            ab, bc, ac = v[o[0]], v[o[1]], v[o[2]]
            # transitivity: if a<=b and b<=c then a<=c (strict if either strict); same for >=
            if ab <= 0 and bc <= 0 and not (ac <= 0 and (ac < 0 or (ab == 0 and bc == 0))):
                bad = 'not_transitive'
            if ab >= 0 and bc >= 0 and not (ac >= 0 and (ac > 0 or (ab == 0 and bc == 0))):
                bad = 'not_transitive'
        else:
            bad = 'garbled'
    if bad:
        sig = {'kind': bad, 'stratum': 'triple'}
        arith.panic_sig(sig, obs)
        rec.violation(sig, {'terms': texts, 'pre': pre, 'observed': arith.show_obs(obs), 'jobs': [{'op': 'run', 'goal': goal + ' .', 'limit': 2}]})
