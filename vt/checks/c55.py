"""C55 writeq and print quote and space exactly as ISO requires.

Oracle: reference classifier of ISO 6.4 atom tokens (ASCII) decides quoted/unquoted; quoted
text is decoded by an independent quoted-atom reader and must give back the atom's text;
write/1 must emit exactly the atom's characters; write_canonical/1 is compared with a
functional-notation rendering of the term model."""
import itertools
import re

from .. import arith
from ..terms import (mkint, mkfloat, mkc, mkatom, mklist, mkvar, NIL, to_text, show, atom_operand, _read_quoted, ParseError)

ID = 'C55'
LEVEL = 'exploration'
RULE = ('all atoms of length 1-3 over a 22-character alphabet covering every lexical class (lower, upper, digit, _, space, '
        'graphic chars + - * / \\ . : < = #, solo chars ! ; , | [ ] { }, quote, newline) -- enumerated exhaustively across the '
        'shards -- plus the special atoms [] {} \'\' and random longer atoms; for each atom writeq/1 output is classified '
        '(quoted or not) against the ISO 6.4 token classes, a quoted output is decoded by an independent reader and must equal the '
        'atom text, write/1 output must be the raw characters; write_canonical/1 of compound terms (operators, lists, curly '
        'terms, nested) is compared with functional notation. distinct = distinct atoms/terms; non-trivial = all but plain '
        'lower-case alphanumeric atoms')
PARAMS = {'quick': {'extra': 300}, 'thorough': {'extra': 30000}}
MIN_EVAL = {'quick': 15000, 'thorough': 100000}
STRATA = ['letter-digit', 'graphic', 'solo', 'needs-quotes', 'canonical-compound', 'write-raw']
ASSUMPTIONS = ['ISO 13211-1 6.4.2 defines which ASCII atoms are tokens on their own; non-ASCII atoms are not classified here',
               'either \'\' or \\\' is accepted for a quote inside a quoted atom; any ISO escape is accepted for control characters']

ALPHA = ['a', 'b', 'A', '_', '0', ' ', '+', '-', '*', '/', '\\', '.', ':', '<', '=', '#', '!', ';', ',', '|', "'", '\n']
BRACK = ['[', ']', '{', '}', '(', ')', '"', '`', '%', '~', '^', '?', '@', '&', '$', '>', '\t', 'z', '9']
GRAPHIC = set('#$&*+-./:<=>?@^~\\')


def classify(s):
    """'unquoted' | 'quoted' | None (not asserted)"""
    if not s.isascii():
        return None
    if re.fullmatch(r'[a-z][A-Za-z0-9_]*', s):
        return 'unquoted'
    if s in ('[]', '{}', '!', ';'):
        return 'unquoted'
    if s and all(c in GRAPHIC for c in s):
        if s == '.' or s.startswith('/*'):
            return 'quoted'
        return 'unquoted'
    return 'quoted'


def stratum(s):
    if re.fullmatch(r'[a-z][A-Za-z0-9_]*', s):
        return 'letter-digit'
    if s and all(c in GRAPHIC for c in s):
        return 'graphic'
    if s in ('[]', '{}', '!', ';', ',', '|'):
        return 'solo'
    return 'needs-quotes'


def atoms_for_shard(ctx):
    out = []
    idx = 0
    for n in (1, 2, 3):
        for tup in itertools.product(ALPHA, repeat=n):
            if idx % ctx.nshards == ctx.shard:
                out.append(''.join(tup))
            idx += 1
    rng = ctx.rng
    specials = ['[]', '{}', '', "''", 'end_of_file', '/*', '/**/', '*/', '.', '..', '. ', 'a.b', '[a]', '{}x', '[]x', 'hello world', 'Hello', '_x',
                '12', '1a', 'a1', 'é', 'été', '日本', 'aé', '\x00', '\x7f', '\x01a', 'a\\b', "it's", '""', '`', '-->', ':-', '?-', '\\+', '=..', '|', '||']
    for s in specials:
        if hash(s) % ctx.nshards == ctx.shard or ctx.nshards == 1:
            out.append(s)
    for _ in range(ctx.params.get('extra', 0)):
        n = rng.randint(4, 10)
        out.append(''.join(rng.choice(ALPHA + BRACK) for _ in range(n)))
    return out


def canonical_text(t):
    """functional notation, no operators, lists as '.'/2, quoting by the classifier"""
    k = t[0]
    if k == 'i':
        return str(t[1])
    if k == 'a':
        return t[1] if classify(t[1]) == 'unquoted' else "'" + t[1].replace('\\', '\\\\').replace("'", "\\'") + "'"
    if k == 'v':
        return '_'
    if k == 'l':
        items = list(t[1])
        tail = t[2]
        out = canonical_text(tail)
        for it in reversed(items):
            out = "'.'(%s,%s)" % (canonical_text(it), out)
        return out
    if k == 'c':
        return '%s(%s)' % (canonical_text(('a', t[1])), ','.join(canonical_text(a) for a in t[2]))
    raise ValueError(k)


CANON_TERMS = [
    mkc('+', mkint(1), mkint(2)), mkc('-', mkint(1)), mkc('-', mkc('-', mkatom('a'))), mkc(':-', mkatom('a'), mkc(',', mkatom('b'), mkatom('c'))),
    mklist([mkatom('a'), mkatom('b')]), mklist([mkatom('a')], mkatom('b')), mkc('{}', mkatom('x')), mkc('{}', mkc(',', mkatom('a'), mkatom('b'))),
    mkc('f', mkc('+', mkatom('a'), mkatom('b')), mklist([mkint(1)])), mkc('\\+', mkatom('a')), mkc('=', mkatom('A'), mkatom('[]')),
    mkc('is', mkatom('x'), mkc('*', mkint(2), mkc('+', mkint(3), mkint(4)))), mkc(';', mkc('->', mkatom('a'), mkatom('b')), mkatom('c')),
    mkc('dynamic', mkc('/', mkatom('foo'), mkint(1))), mklist([mklist([mkint(1)])]), mkc('^', mkint(2), mkc('^', mkint(3), mkint(4))),
    mkc('-', mkc('-', mkint(1), mkint(2)), mkint(3)), mkc('f', mkatom(','), mkatom('|'), mkatom('[]'), mkatom('{}')), mkc('.', mkatom('a'), mkatom('b'), mkatom('c')),
]


def shard(ctx):
    rec = ctx.rec
    w = ctx.worker()
    w.use_modules(['lists', 'charsio'])
    for s in atoms_for_shard(ctx):
        q = atom_operand(s)
        goal = 'A = %s, write_term_to_chars(A, [quoted(true)], Q), write_term_to_chars(A, [], W), R = r(Q, W)' % q
        o = arith.run_goal(w, goal, var='R', timeout=20)
        st = stratum(s)
        rec.case(st, s, nontrivial=(st != 'letter-digit'))
        rec.strata['write-raw'] += 1
        rec.info['atoms_written'] += 1
        if o[0] == 'timeout':
            rec.inconc('timeout')
            continue
        bad = None
        qtxt = wtxt = None
        if o[0] != 'val' or o[1][0] != 'c' or o[1][1] != 'r':
            bad = o[0] if o[0] != 'val' else 'garbled'
        else:
            def chars(t):
                return '' if t == NIL else ''.join(x[1] for x in t[1])
            qtxt, wtxt = chars(o[1][2][0]), chars(o[1][2][1])
            want = classify(s)
            is_quoted = len(qtxt) >= 2 and qtxt[0] == "'" and qtxt[-1] == "'"
            if wtxt != s:
                bad = 'write_not_raw'
            elif want == 'unquoted' and qtxt != s:
                bad = 'quoted_but_should_not_be' if is_quoted else 'unquoted_text_differs'
            elif want == 'quoted' and not is_quoted:
                bad = 'not_quoted_but_should_be'
            elif is_quoted:
                try:
                    dec, end = _read_quoted(qtxt, 1)
                    if end != len(qtxt) or dec != s:
                        bad = 'quoted_text_decodes_differently'
                except (ParseError, ValueError):
                    bad = 'quoted_text_undecodable'
        if bad is None:
            if len(rec.samples) < 6 and st != 'letter-digit' and len(s) > 1 and hash(s) % 97 == 0:
                rec.sample({'atom': s, 'writeq': qtxt, 'write': wtxt})
            continue
        sig = {'kind': bad, 'stratum': st}
        if s == "''":
            sig['atom'] = 'two_quotes'
        arith.panic_sig(sig, o)
        rec.violation(sig, {'atom': s, 'writeq': qtxt, 'write': wtxt, 'expected_class': classify(s), 'observed': arith.show_obs(o)[:300],
                            'jobs': [{'op': 'raw', 'query': 'use_module(library(charsio)).'}, {'op': 'run', 'goal': goal + ' .', 'limit': 2, 'pred': 'runr'}]})
    if ctx.shard == 0:
        for t in CANON_TERMS:
            goal = 'T = %s, write_term_to_chars(T, [quoted(true), ignore_ops(true)], Cs), R = Cs' % to_text(t)
            o = arith.run_goal(w, goal, var='R')
            rec.case('canonical-compound', to_text(t))
            want = canonical_text(t)
            got = None
            if o[0] == 'val':
                got = '' if o[1] == NIL else ''.join(x[1] for x in o[1][1])
            if got is None or got.replace(' ', '') != want.replace(' ', ''):
                rec.violation({'kind': 'canonical_text_differs'}, {'term': to_text(t), 'expected': want, 'observed': got if got is not None else arith.show_obs(o),
                                                                   'jobs': [{'op': 'raw', 'query': 'use_module(library(charsio)).'}, {'op': 'run', 'goal': goal + ' .', 'limit': 2, 'pred': 'runr'}]})
            # write_canonical/1 itself, through a stream
            goal2 = "T = %s, open('%s', write, S), write_canonical(S, T), close(S), open('%s', read, S2), get_n_chars(S2, _, R), close(S2)" % (
                to_text(t), ctx.scratch_dir() + '/c55.txt', ctx.scratch_dir() + '/c55.txt')
            o2 = arith.run_goal(w, goal2, var='R')
            rec.case('canonical-compound', 'stream:' + to_text(t))
            got2 = None
            if o2[0] == 'val':
                got2 = '' if o2[1] == NIL else ''.join(x[1] for x in o2[1][1])
            if got2 is None or got2.replace(' ', '') != want.replace(' ', ''):
                rec.violation({'kind': 'write_canonical_text_differs'}, {'term': to_text(t), 'expected': want, 'observed': got2 if got2 is not None else arith.show_obs(o2),
                                                                         'jobs': [{'op': 'raw', 'query': 'use_module(library(charsio)).'}, {'op': 'run', 'goal': goal2 + ' .', 'limit': 2, 'pred': 'runr'}]})
