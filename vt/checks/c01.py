"""C01 Integer arithmetic is exact at every magnitude.

Oracle: reference model (Python int) next to the real engine; every expression is
evaluated twice by the engine -- built at run time and handed to is/2 (meta-call
path) and written literally in a consulted clause body (compiled arithmetic
instructions) -- and both observations must equal the model's value or carry one
of the error formals the model allows."""
from .. import refnum
from ..refnum import ArithError, Unmodelled
from ..terms import mkint, mkc, to_text, show
from ..gen import rand_int, int_class, BOUNDARY_INTS
from ..worker import WorkerDied, WorkerTimeout

ID = 'C01'
LEVEL = 'exploration'
RULE = ('random expression trees (depth 1-4) over + - * // div mod rem gcd min max abs sign ^ << >> /\\ \\/ xor \\ '
        'with leaves from the boundary lattice (0, +-1, +-2^k+-{0,1,2} for k in 7..128, random 1-300 bit values); '
        'each is run through is/2 at run time and as a literal in a compiled clause body and compared with Python '
        'int arithmetic; a case is non-trivial when some operand or the result lies outside the 31-bit range or an '
        'error is prescribed; distinct = distinct expression texts')
PARAMS = {'quick': {'n': 9000}, 'thorough': {'n': 400000}}
MIN_EVAL = {'quick': 80000, 'thorough': 3000000}
STRATA = ['fix*fix', 'overflow->big', 'big-operand', 'big->small', 'shift', 'neg-shift', 'pow', 'error', 'bitwise',
          'divmod', 'gcd', 'astronomic', 'nested']
ASSUMPTIONS = ['Python int arithmetic is the mathematical definition',
               'evaluation order of operands is not prescribed: any erroring operand\'s error is accepted',
               'results are read through the engine\'s integer printer (writeq of an integer)']

BIN = refnum.INT_BINOPS
UN = refnum.INT_UNOPS
DIVS = ['//', 'div', 'mod', 'rem']
PAIR_VALS = [0, 1, -1, (1 << 55), -(1 << 55), (1 << 55) - 1, -(1 << 55) - 1, (1 << 55) + 1, (1 << 63), -(1 << 63),
             (1 << 63) - 1, -(1 << 63) - 1, (1 << 64), -(1 << 64), (1 << 31), -(1 << 31), (1 << 62), 3, -3, 7, -7]


def leaf(rng):
    return mkint(rand_int(rng))


def small_leaf(rng):
    return mkint(rng.choice([0, 1, 2, 3, 5, 63, 64, 65, -1, -2, 54, 55, 56, 62, 127, 128, 200, 31, 32, 33]))


def gen_expr(rng, depth):
    if depth <= 0 or rng.random() < 0.25:
        return leaf(rng)
    if rng.random() < 0.18:
        return mkc(rng.choice(UN), gen_expr(rng, depth - 1))
    op = rng.choice(BIN)
    a = gen_expr(rng, depth - 1)
    if op in ('^', '<<', '>>'):
        b = small_leaf(rng) if rng.random() < 0.85 else mkint(rng.randint(-70, 300))
        if op == '^':
            if rng.random() < 0.5:
                a = mkint(rng.choice([0, 1, -1, 2, -2, 3, 10, -10, (1 << 31), (1 << 55) - 1, (1 << 64) + 1]))
            b = mkint(rng.choice([0, 1, 2, 3, 5, 63, 64, 65, 200, -1, -2, -3]))
    else:
        b = gen_expr(rng, depth - 1)
    return mkc(op, a, b)


def gen_case(rng, i):
    """returns (stratum_hint, expr)"""
    r = i % 16
    if r == 0:
        a, b = rng.choice(PAIR_VALS), rng.choice(PAIR_VALS)
        return None, mkc(rng.choice(BIN[:10]), mkint(a), mkint(b))
    if r == 1:
        # bignum - bignum -> small
        B = rng.choice([1 << 60, 1 << 64, 10 ** 30, 1 << 55, (1 << 63) + 5])
        k = rng.choice([0, 1, 2, -1, 5, 97, (1 << 31) - 1])
        return None, mkc('+', mkc('-', mkint(B), mkint(B)), mkint(k))
    if r == 2:
        cnt = rng.choice([0, 1, 54, 55, 56, 62, 63, 64, 65, 66, 127, 128, 1 << 32, -1, -63, -64, -65, 1 << 64, (1 << 70) + 1, -(1 << 64)])
        a = rng.choice([0, 1, -1, 5, -5, (1 << 55) - 1, -(1 << 55), (1 << 63), -(1 << 63) - 1, -(1 << 70), (1 << 100) + 12345, -((1 << 100) + 12345), 2])
        return None, mkc(rng.choice(['<<', '>>']), mkint(a), mkint(cnt))
    if r == 3:
        a = rng.choice([7, -7, 0, (1 << 64) + 3, -(1 << 64) - 3, (1 << 55), -(1 << 55), (1 << 63), -(1 << 63), 1, -1])
        b = rng.choice([2, -2, 0, (1 << 64) + 1, -(1 << 64) - 1, (1 << 31), -(1 << 31), 1, -1, 3, -3, (1 << 63), -(1 << 63)])
        return None, mkc(rng.choice(DIVS), mkint(a), mkint(b))
    if r == 4:
        a = rng.choice([0, (1 << 70), -(1 << 70), 12, -18, (1 << 63), -(1 << 63), (1 << 55), 6 * 10 ** 30])
        b = rng.choice([0, (1 << 65), -(1 << 65), 18, -12, -(1 << 63), 9 * 10 ** 30, 1])
        # also operands that are *computed* zeros / small numbers held in bignum form
        ea = mkint(a) if rng.random() < 0.6 else mkc('-', mkc('+', mkint(1 << 70), mkint(a)), mkint(1 << 70))
        eb = mkint(b) if rng.random() < 0.6 else mkc('//', mkc('*', mkint(b), mkint(1 << 70)), mkint(1 << 70))
        return None, mkc('gcd', ea, eb)
    if r == 5:
        return None, mkc('^', mkint(rng.choice([0, 1, -1, 2, -2, 3, -3, 10, (1 << 32), (1 << 55), -(1 << 63), 7])),
                         mkint(rng.choice([0, 1, 2, 3, 10, 31, 32, 62, 63, 64, 65, 100, 200, -1, -2, -64])))
    if r == 6:
        op = rng.choice(UN)
        return None, mkc(op, mkint(rng.choice([-(1 << 55), (1 << 55), -(1 << 55) - 1, -(1 << 63), (1 << 63), -(1 << 63) - 1, 0, -(1 << 64), (1 << 64) - 1, -1])))
    if r == 7:
        op = rng.choice(['/\\', '\\/', 'xor'])
        return None, mkc(op, leaf(rng), leaf(rng))
    if r == 8 and i % 128 == 8:
        # astronomic results: a catchable error (or the right value) is required, never a crash
        return 'astronomic', rng.choice([
            mkc('<<', mkint(1), mkint(1 << 70)), mkc('<<', mkint(2), mkint(10 ** 20)),
            mkc('>>', mkint(1), mkint(-(1 << 64))), mkc('<<', mkint(-3), mkint((1 << 63) + 1)),
            mkc('<<', mkint(5), mkint((1 << 64) - 1)), mkc('>>', mkint(-1), mkint(-(10 ** 30)))])
    return None, gen_expr(rng, rng.choice([1, 2, 2, 3, 3, 4]))


def classify(expr, model):
    """stratum from the *evaluated* case, not from the generator's intent"""
    if expr[0] != 'c':
        return 'leaf'
    op = expr[1]
    args = expr[2]
    nested = any(a[0] == 'c' for a in args)
    if isinstance(model, ArithError):
        return 'error'
    vals = []
    for a in args:
        try:
            vals.append(refnum.eval_int(a))
        except Exception:
            vals.append(None)
    big_in = any(v is not None and int_class(v) not in ('small', 'fixnum') for v in vals)
    res_cls = int_class(model) if isinstance(model, int) else 'small'
    if op in ('<<', '>>'):
        if len(vals) == 2 and vals[1] is not None and vals[1] < 0:
            return 'neg-shift'
        return 'shift'
    if op == '^':
        return 'pow'
    if op == 'gcd':
        return 'gcd'
    if big_in and res_cls in ('small', 'fixnum'):
        return 'big->small'
    if big_in:
        return 'big-operand'
    if res_cls not in ('small', 'fixnum'):
        return 'overflow->big'
    if op in ('/\\', '\\/', 'xor', '\\'):
        return 'bitwise'
    if op in DIVS:
        return 'divmod'
    if nested:
        return 'nested'
    return 'fix*fix'


def nontrivial(expr, model):
    if isinstance(model, ArithError):
        return True
    if isinstance(model, int) and int_class(model) != 'small':
        return True
    for t in (expr[2] if expr[0] == 'c' else ()):
        if t[0] == 'i' and int_class(t[1]) != 'small':
            return True
        if t[0] == 'c':
            return True
    return False


def observe(res):
    """normalises a Result into ('val', term) | ('err', formal) | ('panic', info) | ('other', text)"""
    if isinstance(res.end, tuple):
        if res.end[0] == 'exception':
            return ('err', res.formal())
        if res.end[0] == 'panic':
            return ('panic', res.end[1])
        return ('other', repr(res.end)[:200])
    if len(res.sols) == 1 and 'X' in res.sols[0][0] and res.end == 'exhausted':
        return ('val', res.sols[0][0]['X'])
    return ('other', 'sols=%d end=%r' % (len(res.sols), res.end))


def judge(model, obs):
    """None if obs agrees with the model, else a short kind"""
    if isinstance(model, ArithError):
        if obs[0] == 'err' and obs[1] in model.formals:
            return None
        if obs[0] == 'err':
            return 'wrong_error'
        if obs[0] == 'val':
            return 'missing_error'
        return obs[0]
    if obs[0] == 'val':
        return None if obs[1] == mkint(model) else 'wrong_value'
    if obs[0] == 'err':
        return 'unexpected_error'
    return obs[0]


def run_meta(w, expr):
    return w.run('X is ' + to_text(expr), limit=5)


def model_of(expr):
    try:
        return refnum.eval_int(expr)
    except ArithError as e:
        return e


def shrink(w, expr, depth=0):
    """smallest failing subexpression with literal operands, if the failure is local"""
    if expr[0] != 'c' or depth > 6:
        return expr
    for a in expr[2]:
        if a[0] == 'c':
            try:
                m = model_of(a)
                o = observe(run_meta(w, a))
            except (Unmodelled, WorkerDied, WorkerTimeout):
                continue
            if judge(m, o):
                return shrink(w, a, depth + 1)
    # all operands are fine on their own: replace them by their values
    lits = []
    for a in expr[2]:
        try:
            lits.append(mkint(refnum.eval_int(a)))
        except Exception:
            return expr
    cand = ('c', expr[1], tuple(lits))
    try:
        if judge(model_of(cand), observe(run_meta(w, cand))):
            return cand
    except (Unmodelled, WorkerDied, WorkerTimeout):
        pass
    return expr


def signature(kind, expr, model, obs):
    sig = {'kind': kind, 'op': expr[1] if expr[0] == 'c' else 'leaf'}
    if expr[0] == 'c' and all(a[0] == 'i' for a in expr[2]):
        vals = [a[1] for a in expr[2]]
        sig['arg_sign'] = ''.join('-' if v < 0 else ('0' if v == 0 else '+') for v in vals)
        sig['arg_class'] = ','.join(int_class(v) for v in vals)
        if expr[1] in ('>>', '<<') and len(vals) == 2:
            eff = vals[1] if expr[1] == '>>' else -vals[1]
            sig['effective_right_shift'] = ('>=64' if eff >= 64 else ('0..63' if eff >= 0 else 'left'))
    else:
        sig['arg_class'] = 'nested'
    if obs[0] == 'panic':
        sig['file'] = obs[1].get('file', '').replace('/repo/', '')
        sig['line'] = obs[1].get('line')
        sig['msg'] = obs[1].get('msg', '')[:80]
    if obs[0] == 'val' and obs[1][0] == 'i':
        sig['got'] = obs[1][1] if abs(obs[1][1]) < 10 else 'other'
    return sig


def shard(ctx):
    rec = ctx.rec
    rng = ctx.rng
    w = ctx.worker()
    w.use_modules(['lists'])
    n = ctx.params['n']
    batch = []
    i = 0
    seen = set()
    while i < n:
        hint, expr = gen_case(rng, i + ctx.shard * 7)
        i += 1
        txt = to_text(expr)
        if txt in seen:
            continue
        seen.add(txt)
        if hint == 'astronomic':
            do_astronomic(ctx, w, expr, txt)
            continue
        try:
            model = model_of(expr)
        except Unmodelled:
            rec.inconc('unmodelled')
            continue
        batch.append((expr, txt, model))
        if len(batch) >= 40:
            run_batch(ctx, w, batch)
            batch = []
    if batch:
        run_batch(ctx, w, batch)


def do_astronomic(ctx, w, expr, txt):
    rec = ctx.rec
    rec.case('astronomic', txt)
    try:
        res = w.run('X is ' + txt, limit=2, timeout=60)
        obs = observe(res)
    except WorkerDied as e:
        obs = ('died', {'status': e.status})
    except WorkerTimeout:
        rec.inconc('timeout-astronomic')
        return
    if obs[0] in ('err',):
        rec.info['astronomic_prolog_error'] += 1
        return
    if obs[0] == 'val':
        rec.info['astronomic_value'] += 1
        return
    sig = {'kind': 'crash_on_astronomic_result', 'op': expr[1], 'how': obs[0]}
    if obs[0] == 'panic':
        sig['file'] = obs[1].get('file', '').split('/src/')[-1]
        sig['msg'] = obs[1].get('msg', '')[:60]
    rec.violation(sig, {'goal': 'X is ' + txt, 'observed': repr(obs)[:400],
                        'expected': 'a Prolog error (resource/evaluation error) or the exact value',
                        'jobs': [{'op': 'run', 'goal': 'X is ' + txt + ' .', 'limit': 2}]})


def run_batch(ctx, w, batch):
    rec = ctx.rec
    # compiled form: one clause per expression
    clauses = ''.join('c01_%d(X) :- X is %s.\n' % (j, txt) for j, (_, txt, _) in enumerate(batch))
    compiled_ok = True
    try:
        rep = w.job({'op': 'load', 'module': 'user', 'text': clauses})
        if rep.get('panic') or 'error' in rep.get('out', ''):
            compiled_ok = False
            rec.info['batch_load_failed'] += 1
            if rep.get('panic'):
                rec.violation({'kind': 'panic_at_load', 'file': rep['panic'].get('file', '').replace('/repo/', ''),
                               'line': rep['panic'].get('line')},
                              {'jobs': [{'op': 'load', 'module': 'user', 'text': clauses}], 'observed': rep['panic']})
    except (WorkerDied, WorkerTimeout) as e:
        compiled_ok = False
        rec.violation({'kind': 'died_at_load'}, {'jobs': [{'op': 'load', 'module': 'user', 'text': clauses}], 'observed': repr(e)})
    for j, (expr, txt, model) in enumerate(batch):
        stratum = classify(expr, model)
        modes = [('meta', 'X is ' + txt)]
        if compiled_ok:
            modes.append(('compiled', 'c01_%d(X)' % j))
        for mode, goal in modes:
            rec.case(stratum, (mode, txt), nontrivial=nontrivial(expr, model))
            try:
                res = w.run(goal, limit=5)
                obs = observe(res)
            except WorkerDied as e:
                obs = ('died', {'status': e.status})
                compiled_ok = False
            except WorkerTimeout:
                rec.inconc('timeout')
                compiled_ok = False
                continue
            rec.info['engine_answers'] += 1
            kind = judge(model, obs)
            if kind is None:
                if len(rec.samples) < 4 and nontrivial(expr, model):
                    rec.sample({'goal': 'X is ' + txt, 'mode': mode,
                                'expected': show(mkint(model)) if isinstance(model, int) else [show(f) for f in model.formals],
                                'observed': show(obs[1]) if obs[0] in ('val', 'err') else repr(obs)})
                continue
            small = expr
            if mode == 'meta' and obs[0] not in ('died',):
                try:
                    small = shrink(w, expr)
                except Exception:
                    small = expr
            try:
                sm = model_of(small)
                so = observe(run_meta(w, small)) if small is not expr else obs
            except Exception:
                sm, so, small = model, obs, expr
            if not judge(sm, so):
                sm, so, small = model, obs, expr
            sig = signature(judge(sm, so), small, sm, so)
            sig['mode'] = mode if small is expr else 'meta'
            if sig['mode'] == 'compiled' and small is expr:
                pass
            sig.pop('mode') if sig.get('mode') == 'meta' else None
            rec.violation(sig, {
                'goal': goal, 'expression': txt, 'mode': mode, 'shrunk': to_text(small),
                'expected': show(mkint(sm)) if isinstance(sm, int) else sorted(show(f) for f in sm.formals),
                'observed': show(so[1]) if so[0] in ('val', 'err') else repr(so),
                'jobs': ([{'op': 'load', 'module': 'user', 'text': 'c01_%d(X) :- X is %s.\n' % (j, txt)}] if mode == 'compiled' else [])
                        + [{'op': 'run', 'goal': goal + ' .', 'limit': 5}, {'op': 'run', 'goal': 'X is ' + to_text(small) + ' .', 'limit': 5}]})
