"""C25 All-solutions predicates collect exactly the solutions.

Oracle: reference model.  Generator goals run over a random ground fact table p/3 whose content
and clause order are known to the model; findall/3,4, bagof/3, setof/3 (free variables, ^),
forall/2, countall/2, call_nth/2, nested calls and exceptions inside generators are compared with
the model's answer lists (ISO 8.10 semantics: witness groups in standard order, bagof keeps
solution order inside a group, setof sorts and deduplicates)."""
import itertools

from .. import simple
from ..terms import mkint, mkatom, mklist, mkc, mkvar, NIL, show, to_text
from ..refterm import std_sort

ID = 'C25'
LEVEL = 'exploration'
RULE = ('fact tables p/3 of 0-9 ground rows over the values 1 2 3 a b f(1) "s" 2.0 (with duplicate rows); generator goals p(..) with '
        '0-2 arguments given, conjunctions with a filter, disjunctions of two calls; templates of one variable, pairs and terms with '
        'an unbound extra variable; findall/3, findall/4 with a tail, bagof/3 and setof/3 with 0-2 free variables (enumerating all '
        'groups on backtracking) and with ^ on any subset of them, empty solution sets, forall/2 against \\+ ( C, \\+ A ), countall/2, '
        'call_nth/2 with the index unbound and given (incl. 0 and out of range), nested findall inside bagof, an exception raised '
        'by the n-th solution followed by an ordinary findall. distinct = distinct (table, goal); non-trivial = at least 2 solutions')
PARAMS = {'quick': {'n': 60}, 'thorough': {'n': 4000}}
MIN_EVAL = {'quick': 15000, 'thorough': 1000000}
STRATA = ['findall3', 'findall4', 'bagof-no-free', 'bagof-free', 'bagof-caret', 'setof-no-free', 'setof-free', 'setof-caret', 'empty', 'forall', 'countall',
          'call_nth', 'nested', 'exception-inside', 'fresh-variables']
ASSUMPTIONS = ['ISO 8.10.2/8.10.3: groups are delivered in standard order of the witness, bagof keeps the order of solutions within a group',
               'all facts are ground, so witnesses are ground and the variant-grouping subtleties of 8.10.2.4 do not arise']

VALUES = [mkint(1), mkint(2), mkint(3), mkatom('a'), mkatom('b'), mkc("f", mkint(1)), mkint(7), mkatom("z")]


def rtable(rng):
    n = rng.choice([0, 1, 2, 3, 4, 5, 6, 7, 9])
    vals = rng.sample(VALUES, rng.randint(2, 5))
    rows = [tuple(rng.choice(vals) for _ in range(3)) for _ in range(n)]
    if rows and rng.random() < 0.4:
        rows.append(rng.choice(rows))          # duplicate row
    return rows, vals


def program(rows, k):
    name = 'c25p%d' % k
    if not rows:
        return ':- dynamic(%s/3).\n' % name, name
    return ''.join('%s(%s, %s, %s).\n' % ((name,) + tuple(to_text(v) for v in r)) for r in rows), name


VARS = ['X', 'Y', 'Z']


def gen_goal(rng, rows, vals, name):
    """-> (goal text, solve(python) -> list of dict var->value)"""
    bound = {}
    for i in range(3):
        if rng.random() < 0.25:
            bound[i] = rng.choice(vals)
    args = [to_text(bound[i]) if i in bound else VARS[i] for i in range(3)]
    goal = '%s(%s)' % (name, ', '.join(args))
    free = [VARS[i] for i in range(3) if i not in bound]

    def solve():
        out = []
        for r in rows:
            if all(r[i] == v for i, v in bound.items()):
                out.append({VARS[i]: r[i] for i in range(3) if i not in bound})
        return out
    return goal, solve, free


def shard(ctx):
    w = ctx.worker()
    setup_q = 'use_module(library(lists)), use_module(library(iso_ext)), use_module(library(between)).'
    w.setup([{'op': 'raw', 'query': setup_q}])
    simple.run_cases(ctx, w, gen_cases(ctx, w), setup_query=setup_q, timeout=40,
                     pred_of=lambda g: next((p for p in ('findall', 'bagof', 'setof', 'forall', 'countall', 'call_nth') if p + '(' in g), '?'))


def gen_cases(ctx, w):
    rng = ctx.rng
    for i in range(ctx.params['n']):
        rows, vals = rtable(rng)
        text, name = program(rows, ctx.shard * 100000 + i)
        w.job({'op': 'load', 'module': 'user', 'text': text})
        loadjob = {'setup_text': text}
        for _ in range(8):
            goal, solve, free = gen_goal(rng, rows, vals, name)
            sols = solve()
            nt = len(sols) >= 2
            if not free:
                yield ('countall', 'countall(%s, R)' % goal, ('val', mkint(len(sols))), loadjob)
                continue
            tv = rng.sample(free, rng.randint(1, len(free)))
            tmpl_text = tv[0] if len(tv) == 1 else 't(%s)' % ', '.join(tv)
            tmpl = (lambda s: s[tv[0]]) if len(tv) == 1 else (lambda s: mkc('t', *[s[v] for v in tv]))
            others = [v for v in free if v not in tv]
            # findall/3, findall/4
            yield ('findall3' if sols else 'empty', 'findall(%s, %s, R)' % (tmpl_text, goal), ('val', mklist([tmpl(s) for s in sols])), loadjob)
            tail = [mkatom('tail'), mkint(0)]
            yield ('findall4', 'findall(%s, %s, R, [tail, 0])' % (tmpl_text, goal), ('val', mklist([tmpl(s) for s in sols] + tail)), loadjob)
            # fresh variables in the template
            yield ('fresh-variables', 'findall(%s-W, %s, R)' % (tmpl_text, goal), ('val', mklist([mkc('-', tmpl(s), mkvar(100 + k)) for k, s in enumerate(sols)])), loadjob)
            # bagof / setof with free variables: all groups on backtracking
            for pred in ('bagof', 'setof'):
                caret = rng.sample(others, rng.randint(0, len(others))) if others else []
                witness = [v for v in others if v not in caret]
                g2 = ''.join('%s^' % v for v in caret) + goal
                groups = {}
                for s in sols:
                    groups.setdefault(tuple(s[v] for v in witness), []).append(tmpl(s))
                keys = std_sort_tuples(list(groups))
                exp_groups = []
                for kk in keys:
                    items = groups[kk]
                    if pred == 'setof':
                        items = std_sort(items)
                    exp_groups.append(mkc('g', mklist(list(kk)), mklist(items)))
                st = ('%s-%s' % (pred, 'caret' if caret else 'free' if witness else 'no-free')) if sols else 'empty'
                wl = '[' + ', '.join(witness) + ']'
                yield (st, 'findall(g(%s, L), %s(%s, %s, L), R)' % (wl, pred, tmpl_text, g2), ('val', mklist(exp_groups)), loadjob)
            # countall, call_nth
            yield ('countall', 'countall(%s, R)' % goal, ('val', mkint(len(sols))), loadjob)
            yield ('call_nth', 'findall(N-%s, call_nth(%s, N), R)' % (tmpl_text, goal), ('val', mklist([mkc('-', mkint(k + 1), tmpl(s)) for k, s in enumerate(sols)])), loadjob)
            k = rng.choice([0, 1, 2, len(sols), len(sols) + 1])
            if k == 0:
                yield ('call_nth', '( call_nth(%s, 0) -> R = yes ; R = no )' % goal, ('check', lambda o: None if o[0] in ('err',) or o == ('val', mkatom('no')) else 'call_nth_0_succeeded'), loadjob)
            else:
                exp = mklist([tmpl(sols[k - 1])]) if k <= len(sols) else NIL
                yield ('call_nth', 'findall(%s, call_nth(%s, %d), R)' % (tmpl_text, goal, k), ('val', exp), loadjob)
            # forall vs \+ ( C, \+ A )
            tv0 = tv[0]
            test = rng.choice(['%s \\== %s' % (tv0, to_text(rng.choice(vals))), 'atom(%s)' % tv0, '%s(%s, _, _)' % (name, tv0), 'true', 'fail'])
            yield ('forall', '( forall(%s, %s) -> A = y ; A = n ), ( \\+ ( %s, \\+ %s ) -> B = y ; B = n ), R = A-B' % (goal, test, goal, test),
                   ('check', lambda o: None if o[0] == 'val' and o[1][0] == 'c' and o[1][2][0] == o[1][2][1] else 'forall_differs_from_double_negation'), loadjob)
            # nested: for each value of the first template variable, the list of rows with it
            if len(free) >= 2:
                a, b = free[0], free[1]
                ga = goal
                exp = []
                seen_keys = std_sort(list({repr(s[a]): s[a] for s in sols}.values()))
                for kv in seen_keys:
                    inner = [s[b] for s in sols if s[a] == kv]
                    exp.append(mkc('-', kv, mklist(inner)))
                others2 = [v for v in free if v not in (a,)]
                g3 = ''.join('%s^' % v for v in others2) + goal
                yield ('nested' if sols else 'empty', 'findall(%s-L, ( setof(%s, %s, Ks), member(%s, Ks), findall(%s, %s, L) ), R)' % (a, a, g3, a, b, goal),
                       ('val', mklist(exp)), loadjob)
            # exception raised by the n-th solution, then an ordinary findall
            if sols:
                kx = rng.randint(1, len(sols))
                yield ('exception-inside', ('catch(findall(%s, ( call_nth(%s, N), ( N =:= %d -> throw(c25_ball(N)) ; true ) ), _), c25_ball(K), true), '
                                            'findall(%s, %s, L), R = K-L') % (tmpl_text, goal, kx, tmpl_text, goal),
                       ('val', mkc('-', mkint(kx), mklist([tmpl(s) for s in sols]))), loadjob)


def std_sort_tuples(keys):
    """sorts tuples of terms in the standard order of the corresponding lists"""
    as_lists = [mklist(list(k)) for k in keys]
    order = std_sort(as_lists)
    out = []
    for l in order:
        out.append(tuple(l[1]) if l != NIL else ())
    return out
