"""C47 Parsing a file lazily equals parsing its contents.

Oracle: differential.  The same grammar body is run with phrase_from_file/2,3 on a file and with
phrase/2 on the file's full character list (given as a literal in the goal); all solutions of both
are collected and compared inside the machine, and the result (count, or the first difference) is
reported."""
from .. import arith
from ..terms import mkint, mkatom, mklist, mkstr, mkc, NIL, dq_string, show

ID = 'C47'
LEVEL = 'exploration'
RULE = ('file contents of 0, 1, 2, 10, 100, 4095-4097, 8191-8193 and 12289 characters (the lazy list reads 4096 characters per step) over '
        'ASCII, newlines and 2/3/4-byte characters (so that characters straddle byte-buffer boundaries while steps end on character '
        'counts), with needles placed before, on and after step boundaries; 14 grammar bodies: whole text, length with cuts, all '
        'two-way splits at a newline, substring search with backtracking, first three / last character, if-then-else, negation, '
        'failure after a full scan, split at a fixed length, early failure, lookahead over a step boundary, nested phrase on a '
        'prefix; phrase_from_file/2, phrase_from_file/3 with type(text), and type(binary) on random bytes. distinct = distinct '
        '(content, grammar); non-trivial = content longer than one step or grammar with more than one solution')
PARAMS = {'quick': {'n': 30}, 'thorough': {'n': 1500}}
MIN_EVAL = {'quick': 4000, 'thorough': 200000}
STRATA = ['empty', 'short', 'one-step-boundary', 'two-step-boundary', 'three-steps', 'binary', 'options']
ASSUMPTIONS = ['the comparison of the two solution lists uses ==/2 of the machine itself (strings vs. lazily built lists: C20)',
               'type(binary) delivers each byte as the character with that code']

GRAMMAR = r"""
c47_len(N) --> c47_len_(0, N).
c47_len_(N0, N) --> [_], !, { N1 is N0 + 1 }, c47_len_(N1, N).
c47_len_(N, N) --> [].
c47_split(LA, LB) --> seq(A), "\n", seq(B), { length(A, LA), length(B, LB) }.
c47_find(Needle, LB) --> seq(Before), seq(Needle), ..., { length(Before, LB) }.
c47_first3([A,B,C]) --> [A,B,C], ... .
c47_last(X) --> ..., [X].
c47_alt(W) --> ( seq(_), "xy", seq(_), "z" -> { W = first }, ... ; ..., { W = second } ).
c47_neg --> call(c47_notq), ... .
c47_notq(S, S) :- \+ phrase(( ..., "QQQ" ), S, _).
c47_at(N, Cs, LB) --> { length(Cs, N) }, seq(Cs), seq(B), { length(B, LB) }.
c47_peek(N, X) --> { length(P, N) }, seq(P), c47_look(X), ... .
c47_look(X), [X] --> [X].
c47_inner(N, M) --> { length(P, N) }, seq(P), { phrase(c47_len(M), P) }, ... .
"""

BODIES = [
    ('all', 'seq(Cs)', 'Cs'),
    ('len', 'c47_len(N)', 'N'),
    ('split', 'c47_split(LA, LB)', 'LA-LB'),
    ('find', 'c47_find("needle", LB)', 'LB'),
    ('find-multibyte', 'c47_find("日é", LB)', 'LB'),
    ('first3', 'c47_first3(X)', 'X'),
    ('last', 'c47_last(X)', 'X'),
    ('alt', 'c47_alt(W)', 'W'),
    ('neg', 'c47_neg', 'yes'),
    ('fail-after-scan', '( seq(_), "\\x1\\never" )', 'no'),
    ('early-fail', '( "\\x2\\", seq(_) )', 'no'),
    ('at', 'c47_at(%(k)d, Cs, LB)', 'Cs-LB'),
    ('peek', 'c47_peek(%(k)d, X)', 'X'),
    ('inner', 'c47_inner(%(k)d, M)', 'M'),
]


def content(rng, n, binary):
    if binary:
        bs = [rng.choice([32, 65, 66, 126, 200, 233, 255]) for _ in range(n)]      # non-UTF-8 byte sequences, delivered as Latin-1 characters
        for _ in range(rng.randint(0, 5)):
            if n:
                bs[rng.choice([0, n - 1, min(4095, n - 1), min(4096, n - 1), rng.randrange(n)])] = 10
        return bytes(bs)
    filler = rng.choice(['a', 'ab', 'abé', 'a日', 'x\U0001F600'])
    s = [rng.choice(filler) for _ in range(n)]
    # a few newlines and needles around the interesting offsets (few, so that the number of solutions stays small)
    spots = [0, 1, 4094, 4095, 4096, 4097, 8191, 8192, 8193, n - 1, n - 2]
    for _ in range(rng.randint(0, 5)):
        off = rng.choice(spots + [rng.randrange(n)] if n else [0])
        if 0 <= off < n:
            s[off] = '\n'
    for needle in ('needle', '日é', 'xy', 'z', 'QQQ'):
        if rng.random() < 0.5 and n > len(needle):
            off = rng.choice([0, n - len(needle), 4090, 4093, 4096, 8190, 8192, rng.randrange(n)])
            if 0 <= off <= n - len(needle):
                s[off:off + len(needle)] = list(needle)
    return ''.join(s[:n])


def shard(ctx):
    rec = ctx.rec
    rng = ctx.rng
    w = ctx.worker()
    setup_q = 'use_module(library(lists)), use_module(library(dcgs)), use_module(library(pio)), use_module(library(charsio)).'
    w.setup([{'op': 'raw', 'query': setup_q}, {'op': 'load', 'module': 'user', 'text': GRAMMAR}])
    fpath = ctx.scratch_dir() + '/c47-%d.txt' % ctx.shard
    sizes = [0, 1, 2, 10, 100, 4095, 4096, 4097, 8191, 8192, 8193, 12289]
    for i in range(ctx.params['n']):
        n = sizes[(i + ctx.shard) % len(sizes)]
        binary = rng.random() < 0.12
        c = content(rng, n, binary)
        if binary:
            with open(fpath, 'wb') as f:
                f.write(c)
            text = ''.join(chr(b) for b in c)
            opts = ', [type(binary)]'
        else:
            with open(fpath, 'w', encoding='utf-8', newline='') as f:
                f.write(c)
            text = c
            opts = rng.choice(['', '', ', [type(text)]', ', []'])
        st = 'binary' if binary else 'empty' if n == 0 else 'short' if n < 4000 else 'one-step-boundary' if n < 8000 else 'two-step-boundary' if n < 12000 else 'three-steps'
        lit = dq_string(text)
        for name, body, tmpl in BODIES:
            if binary and name in ('find-multibyte',):
                continue
            k = rng.choice([0, 1, 5, 4095, 4096, 4097, 8192, n, max(n - 1, 0)])
            b = body % {'k': k}
            goal = ("findall(%s, phrase_from_file(%s, '%s'%s), L1), findall(%s, phrase(%s, %s), L2), length(L1, N1), length(L2, N2), "
                    "( L1 == L2 -> R = same(N1) ; R = differ(N1, N2) )") % (tmpl, b, fpath, opts, tmpl, b, lit)
            o = arith.run_goal(w, goal, var='R', timeout=120)
            key = (text, name, k if '%(k)d' in body else 0, opts)
            rec.case(st, key, nontrivial=n > 4096 or name in ('split', 'find', 'at'))
            if opts.strip(', '):
                rec.case('options', key)
            if o[0] == 'timeout':
                rec.inconc('timeout')
                continue
            ok = o[0] == 'val' and o[1][0] == 'c' and o[1][1] == 'same'
            if ok:
                rec.info['solutions_compared'] += o[1][2][0][1]
                if len(rec.samples) < 6 and i % 7 == 0 and name in ('split', 'at'):
                    rec.sample({'size': n, 'grammar': b, 'solutions': o[1][2][0][1]})
                continue
            sig = {'kind': 'lazy_differs_from_full_list' if o[0] == 'val' else o[0], 'grammar': name, 'size_class': st}
            arith.panic_sig(sig, o)
            rec.violation(sig, {'size': n, 'grammar': b, 'observed': arith.show_obs(o)[:300], 'content_head': text[:80], 'content_tail': text[-80:],
                                'note': 'the file content is the literal in the second findall of the goal',
                                'jobs': [{'op': 'raw', 'query': setup_q}, {'op': 'load', 'module': 'user', 'text': GRAMMAR},
                                         {'op': 'write_file', 'path': fpath, 'text_from_goal': True},
                                         {'op': 'run', 'goal': goal + ' .', 'limit': 2, 'pred': 'runr'}]})
