"""C31 An interrupt at any point is caught cleanly.

Oracle: fault injection + reference + invariants.  The verif hook raises the machine's interrupt
flag when the n-th instruction (counted from arming) is dispatched.  A sequence of three goals is
then run (workload, probe, probe), each under catch/3.  Exactly one of them may observe the ball
error('$interrupt_thrown', _) (delivery is polled, so it may fall into a later goal or into the
harness code around a goal); every other goal must give its reference answer; the interrupt must
be delivered at most once, within 512 instructions of being raised whenever that many are still
executed; afterwards a probe battery must give its reference answers."""
from .. import arith
from ..terms import mkint, mkatom, mklist, mkc, NIL, show
from ..worker import WorkerDied, WorkerTimeout

ID = 'C31'
LEVEL = 'exploration'
RULE = ('12 workloads (naive reverse, findall over between, assert/retract loop, setup_call_cleanup with a pending cleanup, catch/throw '
        'ping-pong, dif/freeze wake-up chains (the attributed-variable dispatch loop), call_with_inference_limit inside, bagof/setof, '
        'string building, deep recursion, an exception in flight, read_term_from_chars + call); instruction count N measured per '
        'workload; injection points n: 1..300 in steps of 7, 64 random points in [1, N], the last 300 in steps of 11, and points beyond '
        'N (delivery in a later goal); each injection followed by 2 probe goals and a 6-goal battery. distinct = distinct (workload, n); '
        'non-trivial = interrupt delivered inside the workload goal')
PARAMS = {'quick': {'random_points': 400}, 'thorough': {'random_points': 20000}}
MIN_EVAL = {'quick': 6000, 'thorough': 300000}
STRATA = ['delivered-in-workload', 'delivered-in-harness-code', 'delivered-in-later-goal', 'not-delivered', 'attr-var-loop', 'cleanup-pending', 'exception-in-flight']
ASSUMPTIONS = ['the documented ball is error(\'$interrupt_thrown\', repl/0); only its functor and first argument are asserted',
               'the flag is polled every 256 dispatched instructions: delivery latency is asserted to be at most 512 instructions']

PROGRAM = r"""
:- dynamic(c31_f/1).
:- dynamic(c31_ev/1).
c31_nrev([], []).
c31_nrev([H|T], R) :- c31_nrev(T, RT), append(RT, [H], R).
c31_loop(0) :- !.
c31_loop(N) :- assertz(c31_f(N)), retract(c31_f(N)), N1 is N - 1, c31_loop(N1).
c31_pp(0) :- !.
c31_pp(N) :- catch(throw(b(N)), b(_), true), N1 is N - 1, c31_pp(N1).
c31_deep(0, 0) :- !.
c31_deep(N, S) :- N1 is N - 1, c31_deep(N1, S1), S is S1 + 1.
c31_chain(0, _) :- !.
c31_chain(N, X) :- dif(X, N), freeze(Y, true), Y = N, N1 is N - 1, c31_chain(N1, X).
c31_str(0, []) :- !.
c31_str(N, [x|T]) :- N1 is N - 1, c31_str(N1, T).
c31_p(1, a). c31_p(2, b). c31_p(1, c). c31_p(3, d).
"""

WORKLOADS = [
    ('nrev', 'numlist(1, 120, L), c31_nrev(L, [X|_])', mkint(120)),
    ('findall', 'findall(Y, between(1, 4000, Y), L), length(L, X)', mkint(4000)),
    ('assert-retract', 'c31_loop(1500), X = done', mkatom('done')),
    ('cleanup', 'retractall(c31_ev(_)), setup_call_cleanup(true, ( c31_loop(800), X = done ), assertz(c31_ev(cleanup)))', mkatom('done')),
    ('ping-pong', 'c31_pp(2500), X = done', mkatom('done')),
    ('attr-chain', 'c31_chain(150, V), V = z, X = done', mkatom('done')),
    ('inference-limit', 'call_with_inference_limit(( c31_loop(900), X = done ), 10000000, _)', mkatom('done')),
    ('bagof', 'numlist(1, 300, L), setof(K-Vs, bagof(V, ( member(V, L), K is V mod 3 ), Vs), Gs), length(Gs, X)', mkint(3)),
    ('strings', 'c31_str(3000, S), atom_chars(A, S), atom_length(A, X)', mkint(3000)),
    ('deep-recursion', 'c31_deep(6000, X)', mkint(6000)),
    ('exception-in-flight', 'catch(( c31_loop(400), throw(mine) ), mine, ( c31_loop(400), X = recovered ))', mkatom('recovered')),
    ('read-call', 'read_term_from_chars("c31_loop(700), Z = done .", G, [variable_names([_=X])]), call(G)', mkatom('done')),
]
PROBE1 = ('X is 6 * 7', mkint(42))
PROBE2 = ('append([a], [b], X)', mklist([mkatom('a'), mkatom('b')]))
BATTERY = [('atom_length(abc, X)', mkint(3)), ('findall(Y, member(Y, [c, b]), X)', mklist([mkatom('c'), mkatom('b')])), ('X is 2 ^ 80 mod 1000', mkint(2 ** 80 % 1000)),
           ('assertz(c31_f(0)), retract(c31_f(0)), X = ok', mkatom('ok')), ('sort([b, a, b], X)', mklist([mkatom('a'), mkatom('b')])), ('catch(throw(t), T, X = T)', mkatom('t'))]


def run_one(w, goal, ref):
    """-> ('ref'|'interrupted'|'wrong'|'panic'|'died'|'timeout', detail)"""
    g = 'catch(once(( %s )), E, true), ( var(E) -> R = done(X) ; R = caught(E) )' % goal
    try:
        res = w.run(g, limit=3, timeout=60, only_r=True)
    except WorkerDied as e:
        return 'died', str(e.status)
    except WorkerTimeout:
        return 'timeout', ''
    if res.rep.get('panic'):
        return 'panic', res.rep['panic']
    out = res.rep.get('out', '')
    o = arith.observe(res, 'R')
    if o[0] == 'val':
        t = o[1]
        if t == mkc('done', ref):
            return 'ref', ''
        if t[0] == 'c' and t[1] == 'caught' and t[2][0][0] == 'c' and t[2][0][1] == 'error' and t[2][0][2][0] == mkatom('$interrupt_thrown'):
            return 'interrupted', 'in-goal'
        return 'wrong', show(t)[:200]
    if '$interrupt_thrown' in out:
        return 'interrupted', 'in-harness-code'
    return 'wrong', arith.show_obs(o)[:200]


def shard(ctx):
    rec = ctx.rec
    rng = ctx.rng
    w = ctx.worker()
    setup_q = 'use_module(library(lists)), use_module(library(between)), use_module(library(iso_ext)), use_module(library(dif)), use_module(library(freeze)), use_module(library(charsio)).'
    setup = [{'op': 'raw', 'query': setup_q}, {'op': 'load', 'module': 'user', 'text': PROGRAM}]
    w.setup(setup)
    for wi, (wn, wg, ref) in enumerate(WORKLOADS):
        # instruction count of the workload goal (un-armed)
        w.job({'op': 'arm_int', 'n': 0})
        k0, d0 = run_one(w, wg, ref)
        N = w.job({'op': 'counters'}).get('ticks', 0)
        if k0 != 'ref':
            rec.violation({'kind': 'workload_reference_run_wrong', 'workload': wn}, {'goal': wg, 'observed': d0, 'jobs': setup})
            continue
        points = list(range(1, 300, 7)) + [rng.randint(1, max(N, 2)) for _ in range(ctx.params['random_points'])] + list(range(max(N - 300, 1), N, 11)) + [N + 50, N + 2000, N + 9000]
        rec.info['instructions_' + wn] = N
        for pi, n in enumerate(points):
            if (wi * 100003 + pi) % ctx.nshards != ctx.shard:
                continue
            w.job({'op': 'arm_int', 'n': n})
            outcomes = [run_one(w, wg, ref), run_one(w, PROBE1[0], PROBE1[1]), run_one(w, PROBE2[0], PROBE2[1])]
            cnt = w.job({'op': 'counters'}) if all(o[0] not in ('died', 'timeout') for o in outcomes) else {}
            if cnt:
                w.job({'op': 'clear_int'})
                w.job({'op': 'arm_int', 'n': 0})
            kinds = [o[0] for o in outcomes]
            ni = kinds.count('interrupted')
            deliveries = cnt.get('int_deliveries', 0)
            latency = cnt.get('int_delivered_at', 0) - cnt.get('int_raised_at', 0) if deliveries else None
            why = None
            if any(k in ('panic', 'died') for k in kinds):
                why = 'process_' + next(k for k in kinds if k in ('panic', 'died'))
            elif 'timeout' in kinds:
                rec.inconc('timeout')
                continue
            elif 'wrong' in kinds:
                why = 'goal_gave_wrong_answer_around_interrupt'
            elif ni > 1 or deliveries > 1:
                why = 'interrupt_delivered_more_than_once'
            elif deliveries != ni:
                why = 'delivery_count_differs_from_observed_balls'
            elif latency is not None and latency > 512:
                why = 'interrupt_delivered_late'
            elif deliveries == 0 and cnt.get('int_raised_at', 0) and cnt.get('ticks', 0) - cnt.get('int_raised_at', 0) > 600:
                why = 'interrupt_raised_but_never_delivered'
            if ni == 0:
                st = 'not-delivered'
            elif kinds[0] == 'interrupted':
                st = 'delivered-in-workload' if outcomes[0][1] == 'in-goal' else 'delivered-in-harness-code'
            else:
                st = 'delivered-in-later-goal'
            rec.case(st, (wn, n), nontrivial=st == 'delivered-in-workload')
            if wn == 'attr-chain' and ni:
                rec.case('attr-var-loop', (wn, n, 'a'))
            if wn == 'exception-in-flight' and ni:
                rec.case('exception-in-flight', (wn, n, 'e'))
            if latency is not None:
                rec.info['max_latency'] = max(rec.info['max_latency'], latency)
                rec.sets['delivery_points'].add((wn, cnt.get('int_delivered_at')))
            jobs = setup + [{'op': 'arm_int', 'n': n}] + [{'op': 'run', 'goal': 'catch(once(( %s )), E, true), ( var(E) -> R = done(X) ; R = caught(E) ) .' % g, 'limit': 3, 'pred': 'runr'}
                                                            for g in (wg, PROBE1[0], PROBE2[0])] + [{'op': 'counters'}]
            if why is None and wn == 'cleanup':
                # the pending cleanup must have run exactly once whatever happened
                k, d = run_one(w, 'findall(E0, c31_ev(E0), X)', mklist([mkatom('cleanup')]))
                rec.case('cleanup-pending', (wn, n, 'c'))
                if k != 'ref':
                    why = 'cleanup_not_run_exactly_once_after_interrupt'
                    outcomes.append((k, d))
            if why is None:
                for pg, want in BATTERY:
                    k, d = run_one(w, pg, want)
                    if k != 'ref':
                        why = 'battery_goal_wrong_after_interrupt'
                        outcomes.append((k, pg + ' -> ' + str(d)))
                        break
            if why is None:
                if len(rec.samples) < 6 and ni and pi % 17 == 0:
                    rec.sample({'workload': wn, 'n': n, 'outcomes': kinds, 'latency': latency})
                continue
            sig = {'kind': why, 'workload': wn, 'where': st}
            if why.startswith('process_'):
                pan = next((o[1] for o in outcomes if o[0] == 'panic'), None)
                if isinstance(pan, dict):
                    sig['file'] = pan.get('file', '').replace('/repo/', '')
                    sig['line'] = pan.get('line')
            rec.violation(sig, {'n': n, 'instructions_of_workload': N, 'outcomes': [list(map(str, o)) for o in outcomes], 'counters': cnt, 'jobs': jobs})
