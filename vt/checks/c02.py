"""C02 Float and mixed-type evaluation follows IEEE-754 with ISO checks.

Oracle: reference model (Python float = IEEE binary64 with glibc libm, Fraction for
rationals, exact ints for the rounding functions) next to the real engine; run-time
is/2 and compiled clause bodies both observed."""
import math

from .. import refnum, arith
from ..refnum import ArithError, Unmodelled, Approx, OneOf
from ..terms import mkint, mkfloat, mkc, mkatom, to_text, show, bits2f
from ..gen import rand_int, rand_float, rand_rat, SPECIAL_FLOATS

ID = 'C02'
LEVEL = 'exploration'
RULE = ('unary/binary float-valued expressions and depth<=3 nests over / ** sqrt exp log sin cos tan asin acos atan atan2 '
        'float float_integer_part float_fractional_part + - * min max abs sign, and truncate round ceiling floor, with '
        'leaves from the double lattice (+-0, subnormals, near-overflow, x.5, >2^53), integers of every size and rationals; '
        'engine value compared bit-exactly with Python (IEEE) for + - * / sqrt, conversions and rounding functions, within 1 ulp '
        'for libm functions and pow; errors compared with the prescribed evaluation_error. distinct = distinct expression texts; '
        'non-trivial = every case (no trivially true cases are generated)')
PARAMS = {'quick': {'n': 6000}, 'thorough': {'n': 300000}}
MIN_EVAL = {'quick': 60000, 'thorough': 3000000}
STRATA = ['float-arith', 'mixed-int', 'mixed-rat', 'promote-big', 'expect-error', 'rounding', 'libm', 'pow', 'division',
          'parts', 'nested', 'subnormal', 'minmax']
ASSUMPTIONS = ['Python float arithmetic is IEEE-754 binary64; math.* is the same glibc libm the engine calls',
               '<=1 ulp allowed (and counted) for exp log sin cos tan asin acos atan atan2 ** ^',
               'int/int and rational division may round once (exact quotient) or after promoting each operand',
               'the sign of a zero result is not observable through the printer and is not compared',
               'log(0) may raise undefined or float_overflow']

UN_F = ['sqrt', 'exp', 'log', 'sin', 'cos', 'tan', 'asin', 'acos', 'atan']
UN_R = ['truncate', 'round', 'ceiling', 'floor']
UN_P = ['float', 'float_integer_part', 'float_fractional_part', 'abs', 'sign', '-']
BIN_A = ['+', '-', '*']
HALVES = [0.5, -0.5, 1.5, -1.5, 2.5, -2.5, 0.49999999999999994, -0.49999999999999994, 4503599627370495.5,
          -4503599627370495.5, 4503599627370496.5, 1e20, -1e20, 4611686018427387904.5, 9.223372036854776e18,
          -9.223372036854776e18, 1.8446744073709552e19, 3.6028797018963968e16, 3.6028797018963964e16, 1e308, -1e308,
          2.0 ** 62 + 1024, 0.0, -0.0, 5e-324, 0.9999999999999999, -0.9999999999999999, 1e15 + 0.5, 255.5, -255.5]


def fleaf(rng):
    return mkfloat(rand_float(rng))


def ileaf(rng):
    return mkint(rand_int(rng) if rng.random() < 0.6 else rng.randint(-10, 10))


def any_leaf(rng):
    r = rng.random()
    if r < 0.55:
        return fleaf(rng)
    if r < 0.85:
        return ileaf(rng)
    return rand_rat(rng)


def moderate_float(rng):
    return mkfloat(rng.choice([rng.uniform(-50, 50), rng.uniform(-1, 1), rng.uniform(0, 700), rng.choice(SPECIAL_FLOATS)]))


def gen_case(rng, i):
    r = i % 13
    if r == 0:
        return mkc(rng.choice(BIN_A + ['/']), fleaf(rng), fleaf(rng))
    if r == 1:
        a, b = (fleaf(rng), ileaf(rng)) if rng.random() < 0.5 else (ileaf(rng), fleaf(rng))
        return mkc(rng.choice(BIN_A + ['/', 'min', 'max']), a, b)
    if r == 2:
        a, b = (fleaf(rng), rand_rat(rng)) if rng.random() < 0.5 else (rand_rat(rng), fleaf(rng))
        return mkc(rng.choice(BIN_A + ['/']), a, b)
    if r == 3:
        big = mkint(rng.choice([2 ** 53 + 1, 2 ** 53 + 3, 2 ** 63 + 1025, 2 ** 64 - 1, 2 ** 1023, 2 ** 1024 - 2 ** 970, 2 ** 1024,
                                -(2 ** 1024), 2 ** 2000, 10 ** 308, 10 ** 309, 2 ** 70 + 1, -(2 ** 100) - 1, 3 ** 200]))
        if rng.random() < 0.4:
            return mkc(rng.choice(['float', 'sqrt', 'float_integer_part', 'exp', 'atan']), big)
        return mkc(rng.choice(BIN_A + ['/']), big, rng.choice([mkfloat(1.0), mkfloat(0.0), mkfloat(0.5), fleaf(rng)]))
    if r == 4:
        # prescribed errors
        z = rng.choice([mkint(0), mkfloat(0.0), mkfloat(-0.0)])
        return rng.choice([
            mkc('/', any_leaf(rng), z), mkc('log', rng.choice([mkint(0), mkfloat(0.0), mkint(-1), mkfloat(-2.5), mkfloat(-5e-324)])),
            mkc('sqrt', rng.choice([mkint(-1), mkfloat(-1e-300), mkfloat(-4.0), mkint(-(2 ** 70))])),
            mkc('**', z, rng.choice([mkint(-1), mkfloat(-0.5), mkint(-3)])),
            mkc('asin', rng.choice([mkint(2), mkfloat(1.0000000000000002), mkfloat(-1.5)])),
            mkc('acos', rng.choice([mkint(-2), mkfloat(1.0000000000000002), mkfloat(-1e10)])),
            mkc('atan2', z, z), mkc('exp', mkint(rng.choice([710, 1000, 10 ** 6]))),
            mkc('*', mkfloat(1e308), mkfloat(rng.choice([10.0, -10.0, 1e308]))),
            mkc('+', mkfloat(1.7976931348623157e308), mkfloat(1.7976931348623157e308)),
            mkc('**', mkfloat(-8.0), mkfloat(0.5)), mkc('**', mkint(10), mkint(400)), mkc('**', mkfloat(2.0), mkint(1024)),
            mkc('/', mkfloat(1e308), mkfloat(1e-10)), mkc('-', mkfloat(-1.7976931348623157e308), mkfloat(1e308))])
    if r == 5:
        x = rng.choice([mkfloat(rng.choice(HALVES)), fleaf(rng), rand_rat(rng), ileaf(rng),
                        mkfloat(float(rng.randint(-1000, 1000)) + 0.5)])
        return mkc(rng.choice(UN_R), x)
    if r == 6:
        f = rng.choice(UN_F)
        x = rng.choice([moderate_float(rng), ileaf(rng) if rng.random() < 0.3 else mkint(rng.randint(-5, 700)), rand_rat(rng), fleaf(rng)])
        if f in ('asin', 'acos') and rng.random() < 0.8:
            x = mkfloat(rng.uniform(-1, 1))
        return mkc(f, x)
    if r == 7:
        a = rng.choice([moderate_float(rng), mkint(rng.randint(-12, 12)), mkfloat(rng.choice([2.0, 10.0, 0.5, -2.0, -1.0, 1.0, 0.0]))])
        b = rng.choice([mkint(rng.randint(-10, 40)), mkfloat(rng.uniform(-5, 5)), mkfloat(rng.choice([0.5, -0.5, 2.0, 1023.0, -1074.0, 0.0]))])
        op = '**' if rng.random() < 0.6 else '^'
        if op == '^' and a[0] == 'i' and b[0] == 'i':
            a = mkfloat(float(a[1]))
        return mkc(op, a, b)
    if r == 8:
        return mkc('/', any_leaf(rng), any_leaf(rng))
    if r == 9:
        return mkc(rng.choice(['float_integer_part', 'float_fractional_part', 'float', 'abs', 'sign', '-']), any_leaf(rng))
    if r == 10:
        sub = [5e-324, 1e-320, 2.2250738585072014e-308, 2.225073858507201e-308, 4.9e-324, 1e-310, -5e-324, 3e-308]
        return mkc(rng.choice(BIN_A + ['/']), mkfloat(rng.choice(sub)), rng.choice([mkfloat(rng.choice(sub)), mkfloat(0.5), mkint(2), mkfloat(3.0), mkfloat(1e-5)]))
    if r == 11:
        # int/float mixes only: min/max of rationals is not part of the statement
        a = fleaf(rng) if rng.random() < 0.6 else ileaf(rng)
        b = a if rng.random() < 0.2 else (ileaf(rng) if a[0] == 'f' and rng.random() < 0.6 else fleaf(rng))
        if rng.random() < 0.3:
            v = rng.randint(-100, 100)
            a, b = mkint(v), mkfloat(float(v))
            if rng.random() < 0.5:
                a, b = b, a
        return mkc(rng.choice(['min', 'max']), a, b)
    return gen_nested(rng, rng.choice([2, 3]))


def gen_nested(rng, depth):
    if depth <= 0 or rng.random() < 0.2:
        # rationals only as direct operands of the root (keeps the K18 classification exact)
        return rng.choice([fleaf(rng), ileaf(rng), moderate_float(rng)])
    r = rng.random()
    if r < 0.35:
        return mkc(rng.choice(BIN_A + ['/']), gen_nested(rng, depth - 1), gen_nested(rng, depth - 1))
    if r < 0.6:
        return mkc(rng.choice(UN_P + UN_R), gen_nested(rng, depth - 1))
    if r < 0.8:
        # exact float functions keep intermediate results predictable
        return mkc(rng.choice(['sqrt', 'float', 'abs']), gen_nested(rng, depth - 1))
    return mkc(rng.choice(['min', 'max']), gen_nested(rng, depth - 1), gen_nested(rng, depth - 1))


def classify(expr, model):
    if isinstance(model, ArithError):
        return 'expect-error'
    if expr[0] != 'c':
        return 'leaf'
    op = expr[1]
    args = expr[2]
    if any(a[0] == 'c' for a in args):
        return 'nested'
    kinds = [a[0] for a in args]
    if op in UN_R:
        return 'rounding'
    if op in ('**', '^'):
        return 'pow'
    if op in UN_F or op == 'atan2':
        return 'libm'
    if op in ('min', 'max'):
        return 'minmax'
    if op in ('float_integer_part', 'float_fractional_part', 'float', 'abs', 'sign') or (op == '-' and len(args) == 1):
        return 'parts'
    if any(a[0] == 'f' and 0 < abs(bits2f(a[1])) < 2.3e-308 for a in args):
        return 'subnormal'
    if any(a[0] == 'i' and abs(a[1]) > 2 ** 53 for a in args):
        return 'promote-big'
    if op == '/':
        return 'division'
    if 'r' in kinds:
        return 'mixed-rat'
    if 'i' in kinds:
        return 'mixed-int'
    return 'float-arith'


def rat_promotion_explains(expr, obs):
    """True when the observed value is exactly what the reference computation gives
    if a rational operand of the root is promoted to a 1-ulp neighbour of its correctly
    rounded double (the root cause recorded as K18)"""
    if expr[0] != 'c' or obs[0] != 'val' or not any(a[0] == 'r' for a in expr[2]):
        return False
    import itertools
    choices = []
    for a in expr[2]:
        try:
            v = refnum.eval_num(a)
        except Exception:
            return False
        if a[0] == 'r':
            f = float(v)
            choices.append([f, math.nextafter(f, math.inf), math.nextafter(f, -math.inf)])
        else:
            choices.append([v])
    for combo in itertools.product(*choices):
        if all(c == ch[0] for c, ch in zip(combo, choices)):
            continue
        try:
            m = refnum.apply_num(expr[1], list(combo))
        except Exception:
            continue
        ok, _ = refnum.result_matches(m, obs[1])
        if ok:
            return True
    return False


def shard(ctx):
    rec = ctx.rec
    rng = ctx.rng
    w = ctx.worker()
    w.use_modules(['lists'])
    n = ctx.params['n']
    batch = []
    seen = set()
    for i in range(n):
        expr = gen_case(rng, i + ctx.shard * 5)
        txt = to_text(expr)
        if txt in seen:
            continue
        seen.add(txt)
        try:
            model = arith.model_num(expr)
        except Unmodelled:
            rec.inconc('unmodelled')
            continue
        batch.append((expr, txt, model))
        if len(batch) >= 40:
            run_batch(ctx, w, batch)
            batch = []
    if batch:
        run_batch(ctx, w, batch)


def run_batch(ctx, w, batch):
    rec = ctx.rec
    clauses = ''.join('c02_%d(X) :- X is %s.\n' % (j, txt) for j, (_, txt, _) in enumerate(batch))
    compiled_ok = arith.load_clauses(rec, w, clauses)
    for j, (expr, txt, model) in enumerate(batch):
        stratum = classify(expr, model)
        modes = [('meta', 'X is ' + txt)]
        if compiled_ok:
            modes.append(('compiled', 'c02_%d(X)' % j))
        for mode, goal in modes:
            rec.case(stratum, (mode, txt))
            obs = arith.run_goal(w, goal)
            if obs[0] == 'timeout':
                rec.inconc('timeout')
                continue
            if obs[0] == 'died':
                compiled_ok = False
            rec.info['engine_answers'] += 1
            kind, ulps = arith.judge_num(model, obs)
            if kind is None:
                if ulps:
                    rec.info['one_ulp_differences'] += 1
                elif isinstance(model, Approx):
                    rec.info['libm_bit_identical'] += 1
                if len(rec.samples) < 5 and j % 7 == 0:
                    rec.sample({'goal': 'X is ' + txt, 'mode': mode, 'expected': arith.show_model(model), 'observed': arith.show_obs(obs)})
                continue
            sig = {'kind': kind, 'op': expr[1], 'arg_kinds': ','.join(a[0] for a in expr[2]), 'stratum': stratum}
            if kind == 'wrong_value' and rat_promotion_explains(expr, obs):
                sig = {'kind': 'rational_promotion_off_by_one_ulp'}
            if mode == 'compiled':
                # only flag the mode when the meta path was fine
                pass
            arith.panic_sig(sig, obs)
            if obs[0] == 'err':
                sig['got_error'] = show(obs[1])[:60]
            rec.violation(sig, {'goal': goal, 'expression': txt, 'mode': mode, 'expected': arith.show_model(model),
                                'observed': arith.show_obs(obs),
                                'jobs': ([{'op': 'load', 'module': 'user', 'text': 'c02_%d(X) :- X is %s.\n' % (j, txt)}] if mode == 'compiled' else [])
                                        + [{'op': 'run', 'goal': goal + ' .', 'limit': 5}]})
