"""C46 clp(B) decides satisfiability and counts models exactly.

Oracle: reference model (truth table).  Random Boolean formulas over up to 6 variables and all
connectives of library(clpb) are evaluated by the check over all assignments; sat/1, taut/2,
sat_count/2 and labeling/1 (after one or two posted constraints) are compared with the table."""
import itertools

from .. import arith
from ..terms import mkint, mkatom, mklist, mkc, NIL, show

ID = 'C46'
LEVEL = 'exploration'
RULE = ('formulas of depth <= 4 over the variables A-F and the constants 0 1 with ~ * + # =:= =\\= =< >= < > card/2 (integers and ranges) '
        '+(List) *(List); per formula: sat/1 succeeds iff satisfiable, taut/2 gives 1 for tautologies, 0 for contradictions and fails '
        'otherwise, sat_count/2 equals the number of satisfying assignments of the variables occurring in the formula, labeling/1 after '
        'sat/1 enumerates exactly the satisfying assignments, each once; the same after two posted constraints; taut/2 and sat_count/2 '
        'under a posted constraint. distinct = distinct (formula, operation); non-trivial = formula neither tautology nor contradiction')
PARAMS = {'quick': {'n': 500}, 'thorough': {'n': 12000}}
MIN_EVAL = {'quick': 30000, 'thorough': 800000}
STRATA = ['sat', 'taut', 'sat_count', 'labeling', 'two-constraints', 'taut-under-constraint', 'count-under-constraint', 'with-card', 'with-list-connective',
          'tautology', 'contradiction', 'contingent']
ASSUMPTIONS = ['sat_count/2 counts assignments of the variables that occur in its argument (documented); under a posted constraint only assignments '
               'that can be extended to a solution of the posted constraint count',
               'taut(F, T) under posted constraints: T = 1 if F is true in every solution of the store, 0 if false in every solution, failure otherwise']

VARS = ['A', 'B', 'C', 'D', 'E', 'F']
BIN = {'*': lambda a, b: a & b, '+': lambda a, b: a | b, '#': lambda a, b: a ^ b, '=:=': lambda a, b: int(a == b), '=\\=': lambda a, b: int(a != b),
       '=<': lambda a, b: int(a <= b), '>=': lambda a, b: int(a >= b), '<': lambda a, b: int(a < b), '>': lambda a, b: int(a > b)}


def gen(rng, d, nv):
    r = rng.random()
    if d <= 0 or r < 0.22:
        if rng.random() < 0.1:
            return ('k', rng.randint(0, 1))
        return ('v', rng.randrange(nv))
    if r < 0.34:
        return ('~', gen(rng, d - 1, nv))
    if r < 0.86:
        return ('b', rng.choice(list(BIN)), gen(rng, d - 1, nv), gen(rng, d - 1, nv))
    if r < 0.94:
        es = [gen(rng, d - 2, nv) for _ in range(rng.randint(1, 4))]
        spec = []
        for _ in range(rng.randint(1, 2)):
            if rng.random() < 0.5:
                spec.append(rng.randint(0, len(es)))
            else:
                lo = rng.randint(0, len(es))
                spec.append((lo, rng.randint(lo, len(es) + 1)))
        return ('card', spec, es)
    return ('list', rng.choice('+*'), [gen(rng, d - 2, nv) for _ in range(rng.randint(0, 3))])


def text(f):
    k = f[0]
    if k == 'k':
        return str(f[1])
    if k == 'v':
        return VARS[f[1]]
    if k == '~':
        return '~(%s)' % text(f[1])
    if k == 'b':
        return '((%s) %s (%s))' % (text(f[2]), f[1], text(f[3]))
    if k == 'card':
        return 'card([%s], [%s])' % (', '.join(str(s) if isinstance(s, int) else '%d-%d' % s for s in f[1]), ', '.join(text(e) for e in f[2]))
    return '%s([%s])' % (f[1], ', '.join(text(e) for e in f[2]))


def ev(f, env):
    k = f[0]
    if k == 'k':
        return f[1]
    if k == 'v':
        return env[f[1]]
    if k == '~':
        return 1 - ev(f[1], env)
    if k == 'b':
        return BIN[f[1]](ev(f[2], env), ev(f[3], env))
    if k == 'card':
        n = sum(ev(e, env) for e in f[2])
        return int(any((n == s) if isinstance(s, int) else (s[0] <= n <= s[1]) for s in f[1]))
    vals = [ev(e, env) for e in f[2]]
    return int(any(vals)) if f[1] == '+' else int(all(vals))


def vars_of(f, acc=None):
    acc = set() if acc is None else acc
    k = f[0]
    if k == 'v':
        acc.add(f[1])
    elif k == '~':
        vars_of(f[1], acc)
    elif k == 'b':
        vars_of(f[2], acc)
        vars_of(f[3], acc)
    elif k in ('card', 'list'):
        for e in f[2]:
            vars_of(e, acc)
    return acc


def has(f, kind):
    k = f[0]
    if k == kind:
        return True
    if k == '~':
        return has(f[1], kind)
    if k == 'b':
        return has(f[2], kind) or has(f[3], kind)
    if k in ('card', 'list'):
        return any(has(e, kind) for e in f[2])
    return False


def models(fs, vs):
    """satisfying assignments of the conjunction of fs over the ordered variables vs"""
    out = []
    for bits in itertools.product((0, 1), repeat=len(vs)):
        env = dict(zip(vs, bits))
        if all(ev(f, env) for f in fs):
            out.append(bits)
    return out


def shard(ctx):
    rec = ctx.rec
    rng = ctx.rng
    w = ctx.worker()
    setup_q = 'use_module(library(lists)), use_module(library(clpb)).'
    setup = [{'op': 'raw', 'query': setup_q}]
    w.setup(setup)
    for i in range(ctx.params['n']):
        nv = rng.randint(1, 6)
        f = gen(rng, rng.randint(1, 4), nv)
        g = gen(rng, rng.randint(1, 3), nv)
        ft, gt = text(f), text(g)
        vf = sorted(vars_of(f))
        vfg = sorted(vars_of(f) | vars_of(g))
        mf = models([f], vf)
        mfg = models([f, g], vfg)
        cls = 'tautology' if len(mf) == 2 ** len(vf) else 'contradiction' if not mf else 'contingent'
        vl = lambda vs: '[' + ', '.join(VARS[v] for v in vs) + ']'
        bl = lambda ms: mklist([mklist([mkint(b) for b in m]) for m in ms])
        cases = [('sat', '( sat(%s) -> R = yes ; R = no )' % ft, mkatom('yes' if mf else 'no'), False),
                 ('taut', '( taut(%s, T) -> R = T ; R = none )' % ft, mkint(1) if cls == 'tautology' else mkint(0) if cls == 'contradiction' else mkatom('none'), False),
                 ('sat_count', 'sat_count(%s, R)' % ft, mkint(len(mf)), False),
                 ('labeling', 'findall(%s, ( sat(%s), labeling(%s) ), R)' % (vl(vf), ft, vl(vf)), bl(mf), True),
                 ('two-constraints', 'findall(%s, ( sat(%s), sat(%s), labeling(%s) ), R)' % (vl(vfg), ft, gt, vl(vfg)), bl(mfg), True)]
        if mf:
            # g under the store f: evaluated over the variables of both
            both = models([f], vfg)
            gvals = set(ev(g, dict(zip(vfg, m))) for m in both)
            cases.append(('taut-under-constraint', '( sat(%s), taut(%s, T) -> R = T ; R = none )' % (ft, gt),
                          mkint(1) if gvals == {1} else mkint(0) if gvals == {0} else mkatom('none'), False))
            vg = sorted(vars_of(g))
            proj = set(tuple(m[vfg.index(v)] for v in vg) for m in mfg)
            cases.append(('count-under-constraint', 'sat(%s), sat_count(%s, R)' % (ft, gt), mkint(len(proj)), False))
        for st, goal, want, asset in cases:
            o = arith.run_goal(w, goal, var='R', timeout=30)
            key = (goal,)
            rec.case(st, key, nontrivial=cls == 'contingent')
            rec.case(cls, key + ('c',))
            if has(f, 'card') or (st not in ('sat', 'taut', 'sat_count', 'labeling') and has(g, 'card')):
                rec.case('with-card', key + ('k',))
            if has(f, 'list'):
                rec.case('with-list-connective', key + ('l',))
            if o[0] == 'timeout':
                rec.inconc('timeout')
                continue
            ok = False
            if o[0] == 'val':
                if asset:
                    got = sorted(show(x) for x in (o[1][1] if o[1] != NIL and o[1][0] == 'l' else []))
                    ok = got == sorted(show(x) for x in (want[1] if want != NIL else []))
                else:
                    ok = o[1] == want
            if ok:
                rec.info['models_compared'] += len(mf) if st in ('labeling', 'sat_count') else len(mfg) if st == 'two-constraints' else 1
                continue
            sig = {'kind': 'differs_from_truth_table' if o[0] == 'val' else o[0], 'op': st}
            arith.panic_sig(sig, o)
            rec.violation(sig, {'goal': goal, 'expected': show(want)[:400], 'observed': arith.show_obs(o)[:400],
                                'jobs': setup + [{'op': 'run', 'goal': goal + ' .', 'limit': 2, 'pred': 'runr'}]})
        if len(rec.samples) < 5 and i % 83 == 0:
            rec.sample({'formula': ft, 'variables': len(vf), 'models': len(mf)})
