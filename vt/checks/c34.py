"""C34 Large and deeply nested terms never crash the process.

Oracle: process-level observation.  Each operation on a large term runs as its own query in a
worker process with an address-space limit; the verdict looks only at how the query ended: an
answer, failure or a Prolog error is fine, a panic of the machine or the death of the process
(signal, abort, native stack overflow) is a violation.  Where the result is cheap to know (length,
last element, equality) it is compared as well."""
from .. import arith
from ..terms import mkint, mkatom, mklist, mkc, NIL, show
from ..worker import WorkerDied, WorkerTimeout

ID = 'C34'
LEVEL = 'exploration'
RULE = ('term shapes: long list, right-nested f(1,f(2,..)), left-nested f(f(..,2),1), deep unary s(s(..)), deep list nesting [[[..]]], long '
        'string, wide structure of arity 255 with deep arguments, conjunction chain (a,(b,..)), operator chain 1+2+..; sizes 10^3 and 10^5 (quick), 10^3 .. 3*10^6 '
        '(thorough) nodes; operations: build, copy_term, ==, compare against a copy, unify with a copy, unify with occurs check, '
        'ground, term_variables, assertz+clause back, findall copy, sort/msort/length/reverse (lists), write to chars, write then read '
        'back, read from text built by the harness, atom_length/atom_codes of a long atom, number_codes of a 10^5-digit integer, '
        'term_to_atom-free round trip through a file, functor/=.. on the wide structure, hashing via variant check, throw/catch of '
        'the term, bb_put/bb_get. distinct = distinct (shape, size, operation); non-trivial = size >= 10^5')
PARAMS = {'quick': {'sizes': [1000, 100000], 'timeout': 60}, 'thorough': {'sizes': [1000, 10000, 100000, 300000, 1000000, 3000000], 'timeout': 900}}
MIN_EVAL = {'quick': 300, 'thorough': 900}
SHARDS = {'quick': 8, 'thorough': 8}
STRATA = ['long-list', 'right-nested', 'left-nested', 'deep-unary', 'deep-list-nesting', 'long-string', 'wide-structure', 'conjunction-chain', 'operator-chain',
          'long-atom', 'huge-integer', 'size>=10^5']
ASSUMPTIONS = ['a Prolog error (resource_error, representation_error, ...) or a timeout is acceptable; only panics and process deaths are violations',
               'each worker runs with an 8 GiB address-space limit, so memory exhaustion surfaces as an error or an allocation abort of that worker; '
               'allocation aborts (exit by SIGABRT with "memory allocation failed") are counted separately as inconclusive, not as violations']

PROGRAM = r"""
c34_list(N, L) :- length(L, N), c34_fill(L, 1).
c34_fill([], _).
c34_fill([I|T], I) :- I1 is I + 1, c34_fill(T, I1).
c34_right(0, z) :- !.
c34_right(N, f(N, T)) :- N1 is N - 1, c34_right(N1, T).
c34_left(N, T) :- c34_left(N, z, T).
c34_left(0, T, T) :- !.
c34_left(N, A, T) :- N1 is N - 1, c34_left(N1, f(A, N), T).
c34_unary(N, T) :- c34_unary(N, z, T).
c34_unary(0, T, T) :- !.
c34_unary(N, A, T) :- N1 is N - 1, c34_unary(N1, s(A), T).
c34_nest(N, T) :- c34_nest(N, [], T).
c34_nest(0, T, T) :- !.
c34_nest(N, A, T) :- N1 is N - 1, c34_nest(N1, [A], T).
c34_string(N, S) :- length(S, N), maplist(=(x), S).
c34_wide(N, T) :- D is N // 255, c34_unary(D, A), functor(T, w, 255), c34_fillargs(255, T, A).
c34_fillargs(0, _, _) :- !.
c34_fillargs(I, T, A) :- arg(I, T, A), I1 is I - 1, c34_fillargs(I1, T, A).
c34_conj(N, T) :- c34_conj(N, true, T).
c34_conj(0, T, T) :- !.
c34_conj(N, A, T) :- N1 is N - 1, c34_conj(N1, (g(N), A), T).
c34_ops(N, T) :- c34_ops(N, 0, T).
c34_ops(0, T, T) :- !.
c34_ops(N, A, T) :- N1 is N - 1, c34_ops(N1, A + N, T).
c34_make(long_list, N, T) :- c34_list(N, T).
c34_make(right_nested, N, T) :- c34_right(N, T).
c34_make(left_nested, N, T) :- c34_left(N, T).
c34_make(deep_unary, N, T) :- c34_unary(N, T).
c34_make(deep_list_nesting, N, T) :- c34_nest(N, T).
c34_make(long_string, N, T) :- c34_string(N, T).
c34_make(wide_structure, N, T) :- c34_wide(N, T).
c34_make(conjunction_chain, N, T) :- c34_conj(N, T).
c34_make(operator_chain, N, T) :- c34_ops(N, T).
:- dynamic(c34_store/1).
"""

SHAPES = ['long_list', 'right_nested', 'left_nested', 'deep_unary', 'deep_list_nesting', 'long_string', 'wide_structure', 'conjunction_chain', 'operator_chain']

# (name, goal using T (and N), expected R or None)
OPS = [
    ('build', 'R = built', mkatom('built')),
    ('copy_term', 'copy_term(T, C), ( C == T -> R = same ; R = differ )', mkatom('same')),
    ('compare-copy', 'copy_term(T, C), compare(R, T, C)', mkatom('=')),
    ('unify-copy', 'copy_term(T, C), ( T = C -> R = yes ; R = no )', mkatom('yes')),
    ('unify-occurs-check', 'copy_term(T, C), ( unify_with_occurs_check(T, C) -> R = yes ; R = no )', mkatom('yes')),
    ('ground', '( ground(T) -> R = yes ; R = no )', mkatom('yes')),
    ('term_variables', 'term_variables(T, Vs), length(Vs, R)', mkint(0)),
    ('assert-retrieve', 'retractall(c34_store(_)), assertz(c34_store(T)), c34_store(C), ( C == T -> R = same ; R = differ ), retractall(c34_store(_))', mkatom('same')),
    ('findall-copy', 'findall(T, true, [C]), ( C == T -> R = same ; R = differ )', mkatom('same')),
    ('write-to-chars', 'write_term_to_chars(T, [quoted(true), ignore_ops(true)], Cs), length(Cs, Len), ( Len > 0 -> R = written ; R = empty )', mkatom('written')),
    ('write-read-back', 'write_term_to_chars(T, [quoted(true)], Cs), append(Cs, " .", Cs1), read_term_from_chars(Cs1, C, []), ( C == T -> R = same ; R = differ )', mkatom('same')),
    ('throw-catch', 'catch(throw(ball(T)), ball(C), true), ( C == T -> R = same ; R = differ )', mkatom('same')),
    ('bb-put-get', 'bb_put(c34k, T), bb_get(c34k, C), ( C == T -> R = same ; R = differ ), bb_put(c34k, [])', mkatom('same')),
    ('univ', 'T =.. L, length(L, Len), ( Len >= 1 -> R = ok ; R = odd )', mkatom('ok')),
    ('term-hash-free-variant', 'copy_term(T, C), ( subsumes_term(T, C) -> R = yes ; R = no )', mkatom('yes')),
    ('file-round-trip', "open('%(file)s', write, S), write_term(S, T, [quoted(true)]), write(S, ' .'), nl(S), close(S), open('%(file)s', read, S2), read_term(S2, C, []), close(S2), "
                        "( C == T -> R = same ; R = differ )", mkatom('same')),
]
LIST_OPS = [
    ('length', 'length(T, R)', 'N'),
    ('reverse', 'reverse(T, [R|_])', 'N'),
    ('sort', 'sort(T, S), length(S, R)', 'N'),
    ('msort', 'msort(T, S), length(S, R)', 'N'),
    ('last-by-append', 'append(_, [R], T)', 'N'),
    ('nth', 'nth1(N, T, R)', 'N'),
    ('sum', 'sum_list(T, S), R is S - N * (N + 1) // 2', 0),
    ('keysort', 'findall(K-K, member(K, T), Ps), keysort(Ps, S), length(S, R)', 'N'),
]
ATOM_OPS = [
    ('long-atom', 'c34_string(N, Cs), atom_chars(A, Cs), atom_length(A, R)', 'N'),
    ('long-atom-codes', 'c34_string(N, Cs), atom_chars(A, Cs), atom_codes(A, Codes), length(Codes, R)', 'N'),
    ('long-atom-concat', 'c34_string(N, Cs), atom_chars(A, Cs), atom_concat(A, A, B), atom_length(B, L), R is L // 2', 'N'),
    ('huge-integer', 'c34_string(N, Xs), maplist([_, D]>>(D = 0\'7), Xs, Ds), number_codes(I, Ds), number_codes(I, Back), length(Back, R)', 'N'),
    ('huge-integer-arith', 'I is 7 ** N, J is I * I // I, ( I =:= J -> R = ok ; R = no )', mkatom('ok')),
]


def shard(ctx):
    rec = ctx.rec
    w = ctx.worker()
    setup_q = 'use_module(library(lists)), use_module(library(charsio)), use_module(library(iso_ext)), use_module(library(lambda)).'
    setup = [{'op': 'raw', 'query': setup_q}, {'op': 'load', 'module': 'user', 'text': PROGRAM}]
    w.setup(setup)
    fpath = ctx.scratch_dir() + '/c34-%d.pl' % ctx.shard
    cases = []
    for size in ctx.params['sizes']:
        for shape in SHAPES:
            for op in OPS:
                cases.append((shape, size, op, 'c34_make(%s, %d, T), N = %d' % (shape, size, size)))
        for op in LIST_OPS:
            cases.append(('long_list', size, op, 'c34_make(long_list, %d, T), N = %d' % (size, size)))
        for op in ATOM_OPS:
            if size <= 300000:
                cases.append(('long_atom' if 'atom' in op[0] else 'huge_integer', size, op, 'N = %d' % size))
    for k, (shape, size, (oname, ogoal, expected), make) in enumerate(cases):
        if k % ctx.nshards != ctx.shard:
            continue
        goal = make + ', ' + (ogoal % {'file': fpath} if '%(file)s' in ogoal else ogoal)
        st = shape.replace('_', '-')
        key = (shape, size, oname)
        rec.case(st, key, nontrivial=size >= 100000)
        if size >= 100000:
            rec.case('size>=10^5', key + ('s',))
        o = arith.run_goal(w, goal, var='R', timeout=ctx.params['timeout'])
        rec.info['outcome_' + o[0]] += 1
        if o[0] in ('panic', 'died'):
            detail = arith.show_obs(o)[:400]
            if o[0] == 'died' and ('alloc' in detail or 'SIGKILL' in detail):
                rec.inconc('worker_out_of_memory')
                continue
            sig = {'kind': 'process_' + o[0], 'shape': shape, 'op': oname, 'size_class': '>=10^5' if size >= 100000 else '<10^5'}
            arith.panic_sig(sig, o)
            rec.violation(sig, {'goal': goal, 'size': size, 'observed': detail, 'jobs': setup + [{'op': 'run', 'goal': goal + ' .', 'limit': 2, 'pred': 'runr'}]})
            continue
        if o[0] == 'val' and expected is not None:
            want = mkint(size) if expected == 'N' else (mkint(expected) if isinstance(expected, int) else expected)
            if o[1] != want:
                rec.violation({'kind': 'wrong_result_on_large_term', 'shape': shape, 'op': oname}, {'goal': goal, 'size': size, 'expected': show(want), 'observed': arith.show_obs(o)[:300],
                                                                                                 'jobs': setup + [{'op': 'run', 'goal': goal + ' .', 'limit': 2, 'pred': 'runr'}]})
        if len(rec.samples) < 6 and size >= 100000 and k % 23 == 0:
            rec.sample({'shape': shape, 'size': size, 'op': oname, 'outcome': arith.show_obs(o)[:80]})
