"""C26 dif/2, freeze/2 and when/2 are insensitive to posting order.

Oracle: reference model + metamorphic.  A fixed sequence of unifications and a set of constraints
(dif/2, freeze/2, when/2 with nonvar, ground and ?= conditions, each carrying a logging goal) are
merged in many orders.  The model (Python unification) says whether the conjunction succeeds, which
logging goals must have run (exactly once) and what the final bindings are; in addition the residual
constraints reported for the answer must be the same set for every order."""
import itertools

from .. import arith
from ..terms import mkint, mkatom, mklist, mkc, mkvar, NIL, show, to_text, rename_canonical
from ..miniprolog import unify, resolve

ID = 'C26'
LEVEL = 'exploration'
RULE = ('variables X Y Z W; 1-4 unifications over the terms a b f(a) f(X) g(Y,Z) [X|T] and the variables; 1-4 constraints from dif/2 '
        '(variable/variable, variable/term, structures sharing variables), freeze/2 on each variable, when/2 with nonvar, ground '
        'and conjunction/disjunction conditions; each case in up to 8 merge orders (all constraints first, all last, random '
        'interleavings). distinct = distinct (case, order); non-trivial = at least one constraint is decided by a later unification')
PARAMS = {'quick': {'n': 500}, 'thorough': {'n': 30000}}
MIN_EVAL = {'quick': 25000, 'thorough': 1500000}
STRATA = ['dif-fails', 'dif-entailed', 'dif-residual', 'freeze-fires', 'freeze-residual', 'when-fires', 'when-residual', 'unification-fails', 'order-variants']
ASSUMPTIONS = ['residual goals are compared between merge orders as multisets of their printed form after variable renaming, not against the model',
               'a frozen goal or when/2 goal runs exactly once iff its condition holds under the final substitution; the order of runs is not asserted']

X, Y, Z, W, T = mkvar(1), mkvar(2), mkvar(3), mkvar(4), mkvar(5)
VARS = [('X', X), ('Y', Y), ('Z', Z), ('W', W)]
NAMES = {1: 'X', 2: 'Y', 3: 'Z', 4: 'W', 5: 'T'}
TERMS = [mkatom('a'), mkatom('b'), mkc('f', mkatom('a')), mkc('f', X), mkc('g', Y, Z), mkint(1), mkc('f', W)]

HELPERS = ':- dynamic(c26_ev/1).\nc26_log(E) :- assertz(c26_ev(E)).\n'


def tt(t):
    s = to_text(t)
    for k, n in NAMES.items():
        s = s.replace('_G%d' % k, n)
    return s


def is_ground(t, s):
    t = resolve(t, s)
    if t[0] == 'v':
        return False
    if t[0] == 'c':
        return all(is_ground(a, s) for a in t[2])
    if t[0] == 'l':
        return all(is_ground(a, s) for a in t[1]) and is_ground(t[2], s)
    return True


def decided(a, b, s):
    """?=(A,B): identical or not unifiable"""
    ra, rb = resolve(a, s), resolve(b, s)
    return ra == rb or unify(ra, rb, {}) is None


def gen_case(rng):
    unifs = []
    for _ in range(rng.randint(1, 4)):
        a = rng.choice([X, Y, Z, W])
        b = rng.choice(TERMS + [X, Y, Z, W])
        unifs.append((a, b))
    # no cyclic terms (they belong to C24): re-draw if the unifications create a cycle
    st = {}
    for a, b in unifs:
        st = unify(a, b, st) if st is not None else None
        if st is None:
            break
        try:
            for _, v in VARS:
                resolve(v, st)
        except RecursionError:
            return gen_case(rng)
    cons = []
    for k in range(rng.randint(1, 4)):
        r = rng.random()
        ev = 'e%d' % k
        if r < 0.4:
            a = rng.choice([X, Y, Z, W, mkc('p', X, Y), mkc('p', Z, mkatom('a'))])
            b = rng.choice(TERMS + [X, Y, Z, W, mkc('p', mkatom('a'), W), mkc('p', Y, X)])
            cons.append(('dif', a, b))
        elif r < 0.65:
            cons.append(('freeze', rng.choice([X, Y, Z, W]), ev))
        else:
            kind = rng.choice(['nonvar', 'ground', 'and', 'or'])      # library(when) has no ?=/2 condition
            if kind == 'nonvar':
                cons.append(('when', ('nonvar', rng.choice([X, Y, Z, W])), ev))
            elif kind == 'ground':
                cons.append(('when', ('ground', rng.choice([X, Y, mkc('p', X, Y), mkc('p', Z, W)])), ev))
            elif kind == '?=':
                cons.append(('when', ('?=', rng.choice([X, Y, Z]), rng.choice([W, mkatom('a'), mkc('f', Y)])), ev))
            elif kind == 'and':
                cons.append(('when', ('and', ('nonvar', rng.choice([X, Y])), ('nonvar', rng.choice([Z, W]))), ev))
            else:
                cons.append(('when', ('or', ('nonvar', rng.choice([X, Y])), ('ground', rng.choice([Z, W]))), ev))
    return unifs, cons


def cond_text(c):
    if c[0] in ('nonvar', 'ground'):
        return '%s(%s)' % (c[0], tt(c[1]))
    if c[0] == '?=':
        return '?=(%s, %s)' % (tt(c[1]), tt(c[2]))
    if c[0] == 'and':
        return '( %s, %s )' % (cond_text(c[1]), cond_text(c[2]))
    return '( %s ; %s )' % (cond_text(c[1]), cond_text(c[2]))


def cond_holds(c, s):
    if c[0] == 'nonvar':
        return resolve(c[1], s)[0] != 'v'
    if c[0] == 'ground':
        return is_ground(c[1], s)
    if c[0] == '?=':
        return decided(c[1], c[2], s)
    if c[0] == 'and':
        return cond_holds(c[1], s) and cond_holds(c[2], s)
    return cond_holds(c[1], s) or cond_holds(c[2], s)


def con_text(c):
    if c[0] == 'dif':
        return 'dif(%s, %s)' % (tt(c[1]), tt(c[2]))
    if c[0] == 'freeze':
        return 'freeze(%s, c26_log(%s))' % (tt(c[1]), c[2])
    return 'when(%s, c26_log(%s))' % (cond_text(c[1]), c[2])


def model(unifs, cons):
    s = {}
    for a, b in unifs:
        s = unify(a, b, s)
        if s is None:
            return None
    fired = set()
    strata = set()
    for c in cons:
        if c[0] == 'dif':
            ra, rb = resolve(c[1], s), resolve(c[2], s)
            if ra == rb:
                return 'dif-fails'
            if unify(ra, rb, {}) is None:
                strata.add('dif-entailed')
            else:
                strata.add('dif-residual')
        elif c[0] == 'freeze':
            if resolve(c[1], s)[0] != 'v':
                fired.add(c[2])
                strata.add('freeze-fires')
            else:
                strata.add('freeze-residual')
        else:
            if cond_holds(c[1], s):
                fired.add(c[2])
                strata.add('when-fires')
            else:
                strata.add('when-residual')
    return s, fired, strata


def orders(rng, unifs, cons, k=8):
    u = [('%s = %s' % (tt(a), tt(b))) for a, b in unifs]
    c = [con_text(x) for x in cons]
    out = [c + u, u + c]
    for _ in range(k - 2):
        cc = list(c)
        rng.shuffle(cc)
        seq = list(u)
        for x in cc:
            seq.insert(rng.randint(0, len(seq)), x)
        out.append(seq)
    uniq = []
    for o in out:
        if o not in uniq:
            uniq.append(o)
    return uniq


def shard(ctx):
    rec = ctx.rec
    rng = ctx.rng
    w = ctx.worker()
    setup_q = 'use_module(library(lists)), use_module(library(dif)), use_module(library(freeze)), use_module(library(when)), use_module(library(iso_ext)).'
    setup = [{'op': 'raw', 'query': setup_q}, {'op': 'load', 'module': 'user', 'text': HELPERS}]
    w.setup(setup)
    for i in range(ctx.params['n']):
        unifs, cons = gen_case(rng)
        m = model(unifs, cons)
        residuals = {}
        for oi, seq in enumerate(orders(rng, unifs, cons)):
            goal = ('retractall(c26_ev(_)), ( %s -> Res = yes(t(X, Y, Z, W)) ; Res = no ), findall(E, c26_ev(E), Evs), R = r(Res, Evs)' % ', '.join(seq))
            try:
                res = w.run(goal, limit=3, timeout=30, only_r=True)
            except Exception as e:
                rec.inconc('worker_' + type(e).__name__)
                break
            o = arith.observe(res, 'R')
            if m is None:
                st = 'unification-fails'
            elif m == 'dif-fails':
                st = 'dif-fails'
            else:
                st = sorted(m[2])[oi % len(m[2])] if m[2] else 'order-variants'
            rec.case(st, (goal,), nontrivial=m not in (None,) and bool(cons))
            rec.case('order-variants', (goal, 'o'))
            why = None
            if o[0] != 'val':
                why = 'run_' + o[0]
            else:
                resv, evs = o[1][2]
                got_evs = [] if evs == NIL else [x[1] for x in evs[1]]
                if m is None or m == 'dif-fails':
                    if resv != mkatom('no'):
                        why = 'succeeds_although_' + ('unification' if m is None else 'dif') + '_must_fail'
                else:
                    s, fired, _ = m
                    if resv == mkatom('no'):
                        why = 'fails_although_model_succeeds'
                    else:
                        want = mkc('t', *[resolve(v, s) for _, v in VARS])
                        if rename_canonical(resv[2][0]) != rename_canonical(want):
                            why = 'bindings_differ_from_model'
                        elif sorted(got_evs) != sorted(fired):
                            why = 'goals_run_differ_from_model' if set(got_evs) != fired else 'goal_ran_more_than_once'
                        else:
                            gs = res.sols[0][1]
                            import re as _re
                            gl = gs[1] if gs not in (None, NIL) and gs[0] == 'l' else []
                            # a residual goal is identified by its kind and the logging goals it carries (the order of goals pending on
                            # one variable follows the posting order and is not asserted)
                            key = tuple(sorted({(show(g).split('(')[1] if '(' in show(g) else show(g))[:12] + ':' + ','.join(sorted(_re.findall(r'c26_log\((e\d+)\)', show(g)))) +
                                               ('' if 'c26_log' in show(g) else ':' + show(rename_canonical(mkc('p', resv[2][0], g)))[:300]) for g in gl}))
                            residuals.setdefault(key, []).append(goal)
            if why:
                sig = {'kind': why, 'has_dif': any(c[0] == 'dif' for c in cons), 'when_on_several_variables': any(c[0] == 'when' and c[1][0] in ('and', 'or', 'ground') for c in cons), 'constraints': '+'.join(sorted({c[0] if c[0] != 'when' else 'when-' + c[1][0] for c in cons}))}
                arith.panic_sig(sig, o)
                rec.violation(sig, {'goal': goal, 'model': 'fails' if m in (None, 'dif-fails') else {'fired': sorted(m[1])}, 'observed': arith.show_obs(o)[:400],
                                    'jobs': setup + [{'op': 'run', 'goal': goal + ' .', 'limit': 3, 'pred': 'runr'}]})
                break
        if len(residuals) > 1:
            ks = list(residuals)
            rec.violation({'kind': 'residual_constraints_depend_on_posting_order', 'has_dif': any(c[0] == 'dif' for c in cons), 'constraints': '+'.join(sorted({c[0] if c[0] != 'when' else 'when-' + c[1][0] for c in cons}))},
                          {'order_a': residuals[ks[0]][0], 'residual_a': list(ks[0]), 'order_b': residuals[ks[1]][0], 'residual_b': list(ks[1]),
                           'jobs': setup + [{'op': 'run', 'goal': residuals[ks[0]][0] + ' .', 'limit': 3, 'pred': 'runr'}, {'op': 'run', 'goal': residuals[ks[1]][0] + ' .', 'limit': 3, 'pred': 'runr'}]})
        if len(rec.samples) < 5 and i % 83 == 0 and m not in (None, 'dif-fails'):
            rec.sample({'unifications': [tt(a) + ' = ' + tt(b) for a, b in unifs], 'constraints': [con_text(c) for c in cons], 'fired': sorted(m[1])})
