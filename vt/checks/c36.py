"""C36 format/2 directives produce the documented text.

Oracle: reference model of the directive table in library(format)'s documentation.  Format
strings are generated structurally (so the model never has to parse them) together with their
arguments and the expected text; ~w/~q leaves take the engine's own write_term_to_chars text of the
same argument (C36 does not re-check the printer, see C15/C55)."""
from fractions import Fraction
import itertools

from .. import arith, gen
from ..terms import mkint, mkfloat, mkatom, mklist, mkstr, mkc, NIL, dq_string, show, to_text, fval

ID = 'C36'
LEVEL = 'exploration'
RULE = ('format strings with 1-6 directives drawn from ~w ~q ~a ~s ~d ~Nd ~ND ~NU ~NL ~f ~Nf ~r ~Nr ~NR ~n ~Nn ~i ~~ ~t ~`Ct ~| ~N| ~N+ '
        'and ~* for N, mixed with literal text (ASCII and Unicode); arguments: integers of every size class and sign, floats incl. '
        'huge/tiny/negative, atoms, strings, ground terms; N in 0 1 2 3 5 10 20 72; column stops at or beyond the current column with '
        '1-3 fill points per column segment and ASCII/Unicode fill characters; each case through phrase(format_//2) and 1 in 8 also '
        'through format/3 on a file stream; error cases: undocumented directives (~c ~e ~g ~p ~x ~z ~@), too few / too many '
        'arguments, ill-typed arguments. distinct = distinct (format string, arguments); non-trivial = all')
PARAMS = {'quick': {'n': 900}, 'thorough': {'n': 50000}}
MIN_EVAL = {'quick': 12000, 'thorough': 700000}
STRATA = ['text-directives', 'integer-d', 'integer-grouped', 'integer-lines', 'float-f', 'radix', 'newline-ignore-tilde', 'columns', 'star-argument',
          'mixed', 'via-format3', 'error-undocumented-directive', 'error-argument-count', 'error-ill-typed']
ASSUMPTIONS = ['~Nf: exactly N digits after the point and the value within 0.5 + 10^N * 2.3e-16 units of the last place of the exact '
               'binary value (the library rounds the fractional part in double precision); a zero result may carry a minus sign',
               'remainder of an uneven fill distribution may go to any of the fill points of the segment',
               'column stops are generated at or beyond the current column (behaviour on overflow is not documented)',
               '~NL checked for non-negative integers as N digits per line joined by "_\\n"; for negative integers only the invariants '
               '(text without "_\\n" equals ~d text, no line longer than N)']

NS = [0, 1, 2, 3, 5, 10, 20, 72]
LITS = ['', ' ', 'abc', 'x=', ', ', 'été ', '日本', '[', ']', 'a b', ':', '100%', '-']
FILLS = [None, '.', '*', '-', '0', '日', '_']
ATOMS = ['abc', 'hello world', '[]', 'Abc', 'é', '+', 'a\'b', '', 'don\'t', '日本']
STRINGS = ['', 'str', 'hello there', 'a"b', '日本語', 'x y z']


def chars_of(t):
    if t == NIL:
        return ''
    if t[0] == 'l' and t[2] == NIL:
        return ''.join(a[1] if a[0] == 'a' else '?' for a in t[1])
    return None


def group3(digits, sep):
    out = []
    while len(digits) > 3:
        out.insert(0, digits[-3:])
        digits = digits[:-3]
    out.insert(0, digits)
    return sep.join(out)


def d_text(v, n):
    neg = v < 0
    ds = str(abs(v))
    if n == 0:
        body = ds
    elif len(ds) <= n:
        body = '0.' + '0' * (n - len(ds)) + ds
    else:
        body = ds[:-n] + '.' + ds[-n:]
    return ('-' if neg else '') + body


def dgroup_text(v, n, sep):
    neg = v < 0
    t = d_text(abs(v), n)
    ip, dot, fp = t.partition('.')
    return ('-' if neg else '') + group3(ip, sep) + dot + fp


def radix_text(v, r, upper):
    digs = '0123456789abcdefghijklmnopqrstuvwxyz'
    if upper:
        digs = digs.upper()
    if v == 0:
        return '0'
    neg = v < 0
    v = abs(v)
    out = []
    while v:
        out.append(digs[v % r])
        v //= r
    return ('-' if neg else '') + ''.join(reversed(out))


class FloatSlot:
    """expected ~Nf text: checked by value, not by string"""
    def __init__(self, x, n):
        self.x, self.n = x, n


class LinesSlot:
    def __init__(self, v, n):
        self.v, self.n = v, n


class WSlot:
    def __init__(self, k):
        self.k = k


def rint(rng):
    r = rng.random()
    if r < 0.5:
        return rng.choice([0, 1, 5, 9, 10, 42, 99, 100, 999, 1000, 1234, 12345, 123456, 1234567, 10 ** 9, 2 ** 31, 2 ** 53]) * rng.choice([1, 1, 1, -1])
    return gen.rand_int(rng)


def rfloat(rng):
    r = rng.random()
    if r < 0.5:
        return rng.choice([0.0, 0.5, 1.0, 1.5, 2.5, 0.125, 0.375, 3.14159, 2.675, 1.005, 0.1, 0.2, 0.3, 1e-7, 123456.789, 99.995, 0.999, 9.9999999,
                           1e15, 1e22, 1.5e300, 1e-300, 5e-324, 0.045, 1.45, 8.345]) * rng.choice([1, 1, -1])
    if r < 0.8:
        return round(rng.uniform(-1000, 1000), rng.randint(0, 6))
    x = gen.rand_float(rng)
    return x if x == x and abs(x) != float('inf') else 1.25


def gen_case(rng):
    """-> (stratum, fmt, args(list of text), expected(list of str | slots), wargs(list of arg text for ~w/~q with options))"""
    fmt, args, exp, wq = [], [], [], []
    kinds = set()
    seg_glue = 0        # fill points in the current column segment
    seg_len = 0         # text length in the current segment; None when unknown (w/q/f slots)
    from_col = 0
    ndir = rng.randint(1, 6)
    columns = rng.random() < 0.3

    def lit():
        s = rng.choice(LITS)
        fmt.append(s.replace('~', '~~'))
        exp.append(s)
        return len(s)

    def numarg(n, star_ok=True):
        if star_ok and rng.random() < 0.15:
            args.append(str(n))
            kinds.add('star-argument')
            return '*'
        return str(n)

    known = True
    for _ in range(ndir):
        seg_len += lit()
        r = rng.random()
        if columns and r < 0.45:
            # a fill point, more text, then a column stop
            k = rng.randint(1, 3)
            pieces = []
            fills = []
            for j in range(k):
                ch = rng.choice(FILLS)
                fmt.append('~t' if ch is None else '~`%st' % ch)
                fills.append(' ' if ch is None else ch)
                exp.append(('glue', len(fills) - 1))
                if j < k - 1 or rng.random() < 0.5:
                    s = rng.choice(['x', 'ab', 'right', '日', '42'])
                    fmt.append(s)
                    exp.append(s)
                    seg_len += len(s)
            extra = rng.choice([0, 0, 1, 2, 3, 5, 8, 13])
            if rng.random() < 0.5:
                col = from_col + seg_len + extra
                fmt.append('~%s|' % numarg(col))
            else:
                width = seg_len + extra
                col = from_col + width
                fmt.append('~%s+' % numarg(width))
            exp.append(('stop', fills, extra))
            from_col = col
            seg_len = 0
            kinds.add('columns')
            continue
        if r < 0.12 or (columns and r < 0.55):
            a = rng.choice(ATOMS)
            from ..terms import atom_operand
            fmt.append('~a'); args.append(atom_operand(a)); exp.append(a); seg_len += len(a)
            kinds.add('text-directives')
        elif r < 0.2:
            s = rng.choice(STRINGS)
            fmt.append('~s'); args.append(dq_string(s)); exp.append(s); seg_len += len(s)
            kinds.add('text-directives')
        elif r < 0.32 and not columns:
            t = gen.rand_term(rng, depth=2, nvars=0)
            q = rng.random() < 0.5
            fmt.append('~q' if q else '~w'); args.append(to_text(t)); exp.append(WSlot(len(wq)))
            wq.append((to_text(t), q))
            kinds.add('text-directives')
        elif r < 0.47:
            v = rint(rng)
            n = rng.choice(NS[:6])
            if n == 0 and rng.random() < 0.6:
                fmt.append('~d')
            else:
                fmt.append('~%sd' % numarg(n))
            args.append(str(v) if rng.random() < 0.9 else '%d + %d' % (v - 7, 7))
            t = d_text(v, n)
            exp.append(t); seg_len += len(t)
            kinds.add('integer-d')
        elif r < 0.57:
            v = rint(rng)
            n = rng.choice(NS[:5])
            c = rng.choice('DU')
            fmt.append('~%s' % c if n == 0 and rng.random() < 0.5 else '~%s%s' % (numarg(n), c))
            args.append(str(v))
            t = dgroup_text(v, n, ',' if c == 'D' else '_')
            exp.append(t); seg_len += len(t)
            kinds.add('integer-grouped')
        elif r < 0.62 and not columns:
            v = rint(rng) if rng.random() < 0.5 else rng.choice([1, -1]) * rng.getrandbits(rng.choice([64, 200, 300, 900]))
            n = rng.choice([0, 1, 2, 3, 5, 10, 20, 72])
            fmt.append('~L' if n == 0 and rng.random() < 0.5 else '~%sL' % numarg(n))
            args.append(str(v))
            exp.append(LinesSlot(v, n or 72))
            kinds.add('integer-lines')
        elif r < 0.74 and not columns:
            x = rfloat(rng)
            n = rng.choice([0, 1, 2, 3, 5, 6, 10, 15, 20])
            if n == 6 and rng.random() < 0.7:
                fmt.append('~f')
            else:
                fmt.append('~%sf' % numarg(n))
            args.append(to_text(mkfloat(x)))
            exp.append(FloatSlot(x, n))
            kinds.add('float-f')
        elif r < 0.84:
            v = rint(rng)
            up = rng.random() < 0.5
            if rng.random() < 0.2:
                rdx = 8
                fmt.append('~R' if up else '~r')
            else:
                rdx = rng.choice([2, 3, 8, 10, 16, 35, 36])
                fmt.append('~%s%s' % (numarg(rdx), 'R' if up else 'r'))
            args.append(str(v))
            t = radix_text(v, rdx, up)
            exp.append(t); seg_len += len(t)
            kinds.add('radix')
        elif r < 0.9:
            k = rng.choice([1, 1, 2, 3])
            fmt.append('~n' if k == 1 and rng.random() < 0.7 else '~%sn' % numarg(k))
            exp.append('\n' * k)
            from_col, seg_len = 0, 0
            kinds.add('newline-ignore-tilde')
        elif r < 0.95:
            fmt.append('~i'); args.append(rng.choice(['ignored', '42', 'f(x)', '"s"']))
            kinds.add('newline-ignore-tilde')
        else:
            fmt.append('~~'); exp.append('~'); seg_len += 1
            kinds.add('newline-ignore-tilde')
    lit()
    kinds2 = kinds - {'star-argument'}
    st = 'mixed' if len(kinds2) > 1 else (sorted(kinds2)[0] if kinds2 else 'text-directives')
    if 'columns' in kinds:
        st = 'columns'
    return (st, 'star-argument' in kinds), ''.join(fmt), args, exp, wq


def expected_texts(exp, wtexts):
    """resolves the expectation list into (list of alternatives for fixed parts, slots).  Returns a matcher function."""
    def match(out):
        # build candidate strings lazily: fixed text and glue alternatives; float/lines slots matched structurally
        parts = []          # list of str | slot objects | ('gluealts', [str...])
        seg = []            # pieces of the current column segment: str | ('glue', idx)
        for e in exp:
            if isinstance(e, str):
                seg.append(e)
            elif isinstance(e, WSlot):
                seg.append(wtexts[e.k])
            elif isinstance(e, tuple) and e[0] == 'glue':
                seg.append(e)
            elif isinstance(e, tuple) and e[0] == 'stop':
                fills, extra = e[1], e[2]
                k = len(fills)
                base, rem = divmod(extra, k)
                alts = set()
                for dist in distributions(k, rem):
                    s = []
                    for p in seg:
                        if isinstance(p, tuple):
                            s.append(fills[p[1]] * (base + dist[p[1]]))
                        else:
                            s.append(p)
                    alts.add(''.join(s))
                parts.append(('alts', sorted(alts)))
                seg = []
            else:
                if seg:
                    parts.append(('alts', [''.join(p for p in seg if isinstance(p, str))]))
                    seg = []
                parts.append(e)
        if seg:
            parts.append(('alts', [''.join(p for p in seg if isinstance(p, str))]))
        return match_parts(parts, out)
    return match


def distributions(k, rem):
    if rem == 0:
        yield (0,) * k
        return
    for combo in itertools.combinations_with_replacement(range(k), rem):
        d = [0] * k
        for c in combo:
            d[c] += 1
        yield tuple(d)


def match_parts(parts, out):
    """backtracking matcher; returns None when out matches, else a reason"""
    def go(i, pos):
        if i == len(parts):
            return pos == len(out)
        p = parts[i]
        if isinstance(p, tuple):
            for a in p[1]:
                if out.startswith(a, pos) and go(i + 1, pos + len(a)):
                    return True
            return False
        if isinstance(p, FloatSlot):
            # the float text: optional '-', digits, '.', exactly n digits
            j = pos
            if j < len(out) and out[j] == '-':
                j += 1
            k = j
            while k < len(out) and out[k].isdigit():
                k += 1
            if k == j:
                return False
            if p.n == 0:
                # "0 digits after the point" is not spelled out by the documentation: accept I, I. and I.0
                cands = [k]
                if out[k:k + 1] == '.':
                    cands.append(k + 1)
                if out[k:k + 2] == '.0':
                    cands.append(k + 2)
            else:
                if k >= len(out) or out[k] != '.':
                    return False
                cands = [k + 1 + p.n]
            for e in cands:
                txt = out[pos:e]
                if e <= len(out) and float_ok(txt, p) and go(i + 1, e):
                    return True
            return False
        if isinstance(p, LinesSlot):
            # consume the longest run of digits, '-', '_' and newlines that forms the number
            j = pos
            while j < len(out) and (out[j].isdigit() or out[j] in '-_\n'):
                j += 1
            for e in range(j, pos, -1):
                if lines_ok(out[pos:e], p) and go(i + 1, e):
                    return True
            return False
        raise ValueError(p)
    return None if go(0, 0) else 'text_differs'


def float_ok(txt, p):
    try:
        body = txt[1:] if txt.startswith('-') else txt
        ip, _, fp = body.partition('.')
        if p.n and len(fp) != p.n:
            return False
        if not ip.isdigit() or (fp and not fp.isdigit()):
            return False
        val = Fraction(int(ip + fp), 10 ** len(fp))
        if txt.startswith('-'):
            val = -val
    except Exception:
        return False
    exact = Fraction(p.x)
    n = len(fp) if p.n == 0 else p.n
    if p.n == 0:
        n = 0
    tol = Fraction(1, 2) + Fraction(10 ** n) * Fraction(23, 10 ** 17)
    return abs(val * 10 ** n - exact * 10 ** n) <= tol


def lines_ok(txt, p):
    d = d_text(p.v, 0)
    if txt.replace('_\n', '') != d:
        return False
    lines = txt.split('_\n')
    if any(len(l) > p.n for l in lines):
        return False
    if p.v >= 0:
        want = [d[i:i + p.n] for i in range(0, len(d), p.n)]
        return lines == want
    return all(len(l) > 0 for l in lines)


ERR_CASES = [
    ('error-undocumented-directive', '"~c"', '[65]'), ('error-undocumented-directive', '"~e"', '[1.0]'), ('error-undocumented-directive', '"~g"', '[1.0]'),
    ('error-undocumented-directive', '"~p"', '[x]'), ('error-undocumented-directive', '"~x"', '[x]'), ('error-undocumented-directive', '"~z"', '[]'),
    ('error-undocumented-directive', '"abc~@def"', '[true]'), ('error-undocumented-directive', '"~2c"', '[65]'), ('error-undocumented-directive', '"~"', '[]'),
    ('error-undocumented-directive', '"a~w~y"', '[1, 2]'),
    ('error-argument-count', '"~w"', '[]'), ('error-argument-count', '"~w ~w"', '[a]'), ('error-argument-count', '"~d"', '[]'), ('error-argument-count', '"~a~s"', '[a]'),
    ('error-argument-count', '"~w"', '[a, b]'), ('error-argument-count', '"abc"', '[a]'), ('error-argument-count', '"~n"', '[a]'), ('error-argument-count', '"~*d"', '[2]'),
    ('error-argument-count', '"~i"', '[]'), ('error-argument-count', '"~2f"', '[]'),
    ('error-ill-typed', '"~d"', '[a]'), ('error-ill-typed', '"~d"', '[1.0]'), ('error-ill-typed', '"~d"', '["12"]'), ('error-ill-typed', '"~2d"', '[f(x)]'),
    ('error-ill-typed', '"~D"', '[1.5]'), ('error-ill-typed', '"~a"', '[f(x)]'), ('error-ill-typed', '"~a"', '["str"]'), ('error-ill-typed', '"~s"', '[abc]'),
    ('error-ill-typed', '"~s"', '[42]'), ('error-ill-typed', '"~s"', '[[a|b]]'), ('error-ill-typed', '"~8r"', '[1.0]'), ('error-ill-typed', '"~16r"', '[abc]'),
    ('error-ill-typed', '"~1r"', '[5]'), ('error-ill-typed', '"~37r"', '[5]'), ('error-ill-typed', '"~37R"', '[5]'), ('error-ill-typed', '"~2f"', '[abc]'),
    ('error-ill-typed', '"~f"', '["1.0"]'), ('error-ill-typed', '"~*d"', '[a, 5]'), ('error-ill-typed', '"~L"', '[a]'), ('error-ill-typed', '"~d"', '[_]'),
    ('error-ill-typed', '"~a"', '[_]'), ('error-ill-typed', 'abc', '[]'), ('error-ill-typed', '"~w"', 'foo'), ('error-ill-typed', '_', '[]'),
]


def shard(ctx):
    rec = ctx.rec
    rng = ctx.rng
    w = ctx.worker()
    setup_q = 'use_module(library(lists)), use_module(library(dcgs)), use_module(library(format)), use_module(library(charsio)).'
    w.setup([{'op': 'raw', 'query': setup_q}])
    fpath = ctx.scratch_dir() + '/c36.txt'
    seen = set()
    # error cases (every shard runs a slice)
    for k, (st, fs, as_) in enumerate(ERR_CASES):
        if k % ctx.nshards != ctx.shard:
            continue
        for via in ('dcg', 'format3'):
            if via == 'dcg':
                goal = 'catch(( phrase(format_(%s, %s), Cs) -> R = produced(Cs) ; R = failed ), error(E, _), R = raised(E))' % (fs, as_)
            else:
                goal = ("open('%s', write, S), catch(( format(S, %s, %s) -> R0 = produced ; R0 = failed ), error(E, _), R0 = raised(E)), close(S), "
                        "open('%s', read, S2), get_n_chars(S2, _, Out), close(S2), R = R0-Out") % (fpath, fs, as_, fpath)
            o = arith.run_goal(w, goal, var='R', timeout=30)
            rec.case(st, (goal,))
            bad = None
            if o[0] != 'val':
                bad = o[0]
            elif via == 'dcg':
                if not (o[1][0] == 'c' and o[1][1] == 'raised'):
                    bad = 'no_error_raised'
            else:
                r0, out = o[1][2]
                if not (r0[0] == 'c' and r0[1] == 'raised'):
                    bad = 'no_error_raised'
                elif st == 'error-undocumented-directive' and chars_of(out) not in ('',):
                    bad = 'output_written_before_error'
            if bad:
                sig = {'kind': bad, 'stratum': st, 'format': fs, 'args': as_[:20], 'via': via}
                arith.panic_sig(sig, o)
                rec.violation(sig, {'goal': goal, 'observed': arith.show_obs(o)[:400],
                                    'jobs': [{'op': 'raw', 'query': setup_q}, {'op': 'run', 'goal': goal + ' .', 'limit': 2, 'pred': 'runr'}]})
    for i in range(ctx.params['n']):
        (st, star), fmt, args, exp, wq = gen_case(rng)
        key = (fmt, tuple(args))
        if key in seen:
            continue
        seen.add(key)
        via3 = (i % 8 == 7)
        wgoals = ''.join(', write_term_to_chars(%s, [%snumbervars(true)], W%d)' % (t, 'quoted(true), ' if q else '', k) for k, (t, q) in enumerate(wq))
        wlist = '[' + ', '.join('W%d' % k for k in range(len(wq))) + ']'
        fs = dq_string(fmt)
        al = '[' + ', '.join(args) + ']'
        if via3:
            goal = ("open('%s', write, S), format(S, %s, %s), close(S), open('%s', read, S2), get_n_chars(S2, _, Cs), close(S2)%s, R = r(Cs, %s)"
                    % (fpath, fs, al, fpath, wgoals, wlist))
        else:
            goal = 'phrase(format_(%s, %s), Cs)%s, R = r(Cs, %s)' % (fs, al, wgoals, wlist)
        o = arith.run_goal(w, goal, var='R', timeout=40)
        rec.case(st, key)
        if via3:
            rec.case('via-format3', key)
        if star:
            rec.case('star-argument', key)
        rec.info['goals_observed'] += 1
        if o[0] == 'timeout':
            rec.inconc('timeout')
            continue
        why = None
        out = None
        if o[0] != 'val':
            why = o[0]
        else:
            out = chars_of(o[1][2][0])
            wtexts = [chars_of(x) for x in (o[1][2][1][1] if o[1][2][1] != NIL else [])]
            if out is None or any(x is None for x in wtexts):
                why = 'garbled_output'
            else:
                why = expected_texts(exp, wtexts)(out)
        if why is None:
            if len(rec.samples) < 8 and i % 37 == 0:
                rec.sample({'format': fmt, 'args': al[:200], 'output': out[:200]})
            continue
        dirs = sorted(set(directive_kinds(fmt)))
        sig = {'kind': why, 'stratum': st, 'directives': ' '.join(dirs) if len(dirs) <= 2 else 'several', 'via': 'format3' if via3 else 'dcg'}
        arith.panic_sig(sig, o)
        rec.violation(sig, {'format': fmt, 'args': al, 'goal': goal, 'observed': arith.show_obs(o)[:600], 'expected_parts': [describe(e) for e in exp][:40],
                            'jobs': [{'op': 'raw', 'query': setup_q}, {'op': 'run', 'goal': goal + ' .', 'limit': 2, 'pred': 'runr'}]})


def describe(e):
    if isinstance(e, str):
        return e
    if isinstance(e, FloatSlot):
        return 'float(%r, %d digits)' % (e.x, e.n)
    if isinstance(e, LinesSlot):
        return 'lines(%d, %d)' % (e.v, e.n)
    if isinstance(e, WSlot):
        return 'written(#%d)' % e.k
    return repr(e)


def directive_kinds(fmt):
    out = []
    i = 0
    while i < len(fmt):
        if fmt[i] == '~':
            j = i + 1
            if j < len(fmt) and fmt[j] == '`':
                j += 2
            while j < len(fmt) and (fmt[j].isdigit() or fmt[j] == '*'):
                j += 1
            if j < len(fmt):
                out.append('~' + ('N' if j > i + 1 and fmt[i + 1] != '`' else '') + fmt[j])
            i = j + 1
        else:
            i += 1
    return out
