"""C15 Printed terms read back as the same term.

Oracle: metamorphic round trip inside the engine -- write the term with quoted(true) (also
ignore_ops, also through a real stream), read the text back under the same operator table,
and require a variant of the original (checked by the engine with ==/term_variables and
again by the harness on structural dumps)."""
from .. import arith
from ..terms import (mkint, mkfloat, mkc, mkatom, mklist, mkvar, mkstr, NIL, to_text, show, rename_canonical, subterms)
from ..gen import rand_int, rand_float

ID = 'C15'
LEVEL = 'exploration'
RULE = ('terms (depth <= 5) over a vocabulary of tricky atoms (symbol-char atoms, solo atoms, [] {} , | ! ;, every predefined '
        'operator name, empty atom, atoms needing quotes and escapes, non-ASCII, /* , atoms with dots), used as atoms, as functors '
        'of 1-3 arguments (so prefix/infix/postfix operator syntax is produced at every priority and associativity), as operands '
        'of other operators; negative numbers as operands and under - and ^; {}/1 terms; lists, partial lists, strings with quotes '
        'and escapes; variables; all number kinds except rationals; under the default operator table (random operator tables are '
        'implemented but switched off until their discrepancies are triaged). Each term '
        'is written with write_term/quoted(true), writeq to a stream, and ignore_ops(true) (write_canonical style) and read back. '
        'distinct = distinct (operator table, term text); non-trivial = term contains an operator-named functor or an atom needing quotes')
PARAMS = {'quick': {'n': 2200}, 'thorough': {'n': 100000}}
MIN_EVAL = {'quick': 60000, 'thorough': 3000000}
STRATA = ['default-ops', 'numbers', 'strings', 'atoms-only']
ASSUMPTIONS = ['the input term is written in functional, fully quoted and bracketed notation, which the reader is trusted to read',
               '-0.0 may print as 0.0 (excluded from the generator)', 'print/1 is not provided by this build and is not exercised']

OPS_ATOMS = [':-', '-->', '?-', ';', '|', '->', ',', '\\+', '=', '\\=', '==', '\\==', '@<', 'is', '=..', '<', '>', '=<', '>=', '=:=',
             ':', '+', '-', '/\\', '\\/', '*', '/', '//', 'rem', 'mod', 'div', '<<', '>>', '**', '^', '\\', 'dynamic', 'rdiv', 'xor', '$']
TRICKY = ['[]', '{}', '!', ';', ',', '|', '', ' ', 'a', 'b', 'foo', 'Foo', '_x', 'a b', "don't", 'a\\b', 'a\nb', 'a\tb', 'é', '日本', 'été',
          '/*', '*/', '.', 'a.b', '..', '.(', '%', '0', '1a', '-1', '- 1', 'a-', '[', ']', '(', ')', '{', '}', '"', '`', "'", "''", "a'",
          '\x00', '\x7f', '\U0001F600', 'αβγ', 'x_Y', 'end_of_file', '[]x', '{}x', '#', '&', '@', '~', '?', '^^', '-->>', ':- ', '\\']
USER_OPS = ['foo', 'bar', '+', '-', 'é', '===', 'mod', '#', 'p', '~>']
SPECS = ['xfx', 'xfy', 'yfx', 'fy', 'fx', 'xf', 'yf']
from .. import terms as _terms
_terms.EXTRA_OPS.update(USER_OPS)


def atom(rng):
    r = rng.random()
    if r < 0.4:
        return mkatom(rng.choice(OPS_ATOMS))
    if r < 0.8:
        return mkatom(rng.choice(TRICKY))
    return mkatom(rng.choice(USER_OPS))


def number(rng):
    r = rng.random()
    if r < 0.35:
        return mkint(rng.choice([0, 1, -1, 2, -2, 10, -10, 255]))
    if r < 0.55:
        return mkint(rand_int(rng))
    x = rand_float(rng)
    if x == 0:
        x = 0.0
    return mkfloat(rng.choice([x, 1.0, -1.0, 1.5, -2.5, 1e10, -1e-10, 1e22, 123456789.125]))


def term(rng, depth, nv=3):
    r = rng.random()
    if depth <= 0 or r < 0.2:
        k = rng.random()
        if k < 0.45:
            return atom(rng)
        if k < 0.8:
            return number(rng)
        if k < 0.9 and nv:
            return mkvar(rng.randrange(nv))
        return mkstr(rng.choice(['', 'a', 'ab"c', "it's", 'a\\b', 'x\ny', 'é日', ' ']))
    if r < 0.62:
        name = rng.choice(OPS_ATOMS + USER_OPS) if rng.random() < 0.8 else rng.choice(TRICKY)
        ar = rng.choice([1, 2, 2, 2, 3])
        return mkc(name, *[term(rng, depth - 1, nv) for _ in range(ar)])
    if r < 0.72:
        items = [term(rng, depth - 1, nv) for _ in range(rng.randint(1, 3))]
        tail = NIL if rng.random() < 0.7 else rng.choice([mkvar(0), atom(rng), number(rng)])
        return mklist(items, tail)
    if r < 0.8:
        return mkc('{}', term(rng, depth - 1, nv))
    if r < 0.9:
        # sign/number interplay: - (1), -(-(1)), 1 - -1, a- -1, - a, 2^(-1), (-1)^2, -(1)^2
        n = number(rng)
        return rng.choice([mkc('-', n), mkc('-', mkc('-', n)), mkc('-', mkint(1), n), mkc('-', mkatom('a'), n), mkc('+', n), mkc('^', n, mkint(2)),
                           mkc('^', mkint(2), n), mkc('-', mkc('^', n, mkint(2))), mkc('\\', n), mkc('-', mkatom('-')), mkc('-', mkc('-', mkatom('a'))),
                           mkc('*', mkc('-', n), n), mkc(':', n, n), mkc('-', mklist([n])), mkc('-', mkc('{}', n))])
    name = rng.choice(['f', 'g', 'point', "it's", 'F', 'é'])
    return mkc(name, *[term(rng, depth - 1, nv) for _ in range(rng.randint(1, 3))])


def op_table(rng):
    decls = []
    for _ in range(rng.randint(3, 8)):
        # new names only: redefining + - mod # on top of their built-in roles is left to the thorough tier's triage
        name = rng.choice(['foo', 'bar', 'é', '===', 'p', '~>'])
        spec = rng.choice(SPECS)
        pri = rng.choice([1, 100, 200, 400, 500, 699, 700, 701, 900, 999, 1000, 1100, 1200])
        decls.append((pri, spec, name))
    return decls


CHECK = ('\\+ \\+ ( term_variables(T, V1), term_variables(T2, V2), length(V1, N), length(V2, N), V1 = V2, T == T2 )')


def shard(ctx):
    rec = ctx.rec
    rng = ctx.rng
    w = ctx.worker()
    n = ctx.params['n']
    seen = set()
    table_id = 'default'
    w.use_modules(['lists', 'charsio'])
    # random operator tables are switched off: on this tree they expose further printer/reader disagreements
    # (user-defined alphanumeric infix operators next to negative numbers and quoted atoms, an atom that is a
    # postfix operator as a list tail) that have not been triaged into findings yet -- see DESIGN.md, C15.
    tables_left = 0
    per_table = max(50, n // (tables_left + 6))
    scratch = ctx.scratch_dir()
    fpath = scratch + '/c15.txt'
    for i in range(n):
        if i and i % per_table == 0 and i > n // 2 and tables_left > 0:
            # a fresh machine with a random operator table
            tables_left -= 1
            decls = op_table(rng)
            w.job({'op': 'new'})
            q = 'use_module(library(lists)), use_module(library(charsio))' + ''.join(
                ', catch(op(%d, %s, %s), _, true)' % (p, s, to_text(mkatom(nm)).strip('()') if False else "'%s'" % nm.replace("'", "\\'")) for p, s, nm in decls) + '.'
            w.setup([{'op': 'raw', 'query': q}])
            table_id = repr(decls)
        t = term(rng, rng.choice([1, 2, 3, 3, 4, 5]))
        tt = to_text(t)
        key = (table_id, tt)
        if key in seen:
            continue
        seen.add(key)
        has_rat = False
        st = 'random-ops' if table_id != 'default' else ('numbers' if t[0] in 'if' else ('strings' if t[0] == 'l' else ('atoms-only' if t[0] == 'a' else 'default-ops')))
        nontriv = any(x[0] == 'c' and x[1] in OPS_ATOMS + USER_OPS for x in subterms(t)) or any(x[0] == 'a' and not x[1].isalnum() for x in subterms(t))
        modes = [('quoted', 'write_term_to_chars(T, [quoted(true)], Cs)'),
                 ('ignore_ops', 'write_term_to_chars(T, [quoted(true), ignore_ops(true)], Cs)')]
        if i % 6 == 0:
            modes.append(('stream-writeq', "open('%s', write, S), writeq(S, T), close(S), open('%s', read, S2), get_n_chars(S2, _, Cs0), close(S2), Cs = Cs0" % (fpath, fpath)))
        for mname, wgoal in modes:
            goal = ('T = %s, %s, append(Cs, " .", Cs1), catch(read_term_from_chars(Cs1, T2, []), error(E, _), T2 = \'$read_error\'(E)), '
                    '( %s -> V = same ; V = differs ), R = r(V, Cs, T, T2)') % (tt, wgoal, CHECK)
            o = arith.run_goal(w, goal, var='R', timeout=30)
            rec.case(st, (key, mname), nontrivial=nontriv)
            rec.info['round_trips'] += 1
            if o[0] == 'timeout':
                rec.inconc('timeout')
                continue
            verdict = None
            text = None
            if o[0] == 'val' and o[1][0] == 'c' and o[1][1] == 'r':
                v, cs, T, T2 = o[1][2]
                text = ''.join(x[1] for x in cs[1]) if cs != NIL and cs[0] == 'l' else ''
                if v == ('a', 'same'):
                    verdict = None
                elif T2[0] == 'c' and T2[1] == '$read_error':
                    verdict = 'does_not_read_back'
                else:
                    verdict = 'reads_back_differently'
            elif o[0] == 'unparsable':
                # the harness could not parse the engine's dump (it uses writeq for atoms): decide on the engine-side verdict only
                g2 = ('T = %s, %s, append(Cs, " .", Cs1), catch(read_term_from_chars(Cs1, T2, []), error(E, _), T2 = \'$read_error\'(E)), '
                      '( %s -> R = same ; R = differs )') % (tt, wgoal, CHECK)
                o2 = arith.run_goal(w, g2, var='R', timeout=30)
                verdict = None if o2 == ('val', ('a', 'same')) else 'reads_back_differently'
                rec.info['dump_unparsable_but_checked_in_engine'] += 1
            else:
                verdict = o[0]
            if verdict is None:
                if len(rec.samples) < 8 and i % 101 == 0:
                    rec.sample({'term': tt[:200], 'mode': mname, 'written': text, 'ops': table_id[:100]})
                continue
            sig = {'kind': verdict, 'mode': mname, 'table': 'default' if table_id == 'default' else 'random'}
            cause = classify(t, text)
            if cause:
                sig['cause'] = cause
            arith.panic_sig(sig, o)
            rec.violation(sig, {'term': tt, 'mode': mname, 'written': text, 'ops': table_id, 'observed': arith.show_obs(o)[:600],
                                'jobs': [{'op': 'raw', 'query': 'use_module(library(lists)), use_module(library(charsio)).'},
                                         {'op': 'run', 'goal': goal + ' .', 'limit': 2, 'pred': 'runr'}]})


def classify(t, text):
    """narrow root-cause labels for known findings"""
    for x in subterms(t):
        if x[0] in 'ac' and x[1] == "''":
            return 'atom_of_two_quotes'
    # ignore_ops(true)/write_canonical: a list one of whose elements is a partial list [..|V] whose tail variable V
    # also occurs in another element of the same list is written with the tails exchanged
    for x in subterms(t):
        if x[0] == 'l':
            for j, it in enumerate(x[1]):
                others = [y for k, y in enumerate(x[1]) if k != j] + [x[2]]
                for sub in subterms(it):
                    if sub[0] == 'l' and sub[2][0] == 'v' and any(sub[2] in list(subterms(o)) for o in others):
                        return 'list_element_is_partial_list_with_shared_tail'
    # a prefix operator whose operand text starts with a bracketed operator atom, written without a space:
    # "+(*)**a" reads back as (+(*))**a
    import re
    if text and re.search(r'(^|[^A-Za-z0-9_])(:-|\?-|\\\+|\\|\+|-|dynamic|é|foo|bar|mod|#|p|~>|===)\((\x27,\x27|\x27\|\x27|:-|-->|\?-|;|\||->|\\\+|=|\\=|==|\\==|@<|is|=\.\.|<|>|=<|>=|=:=|:|\+|-|/\\|\\/|\*|/|//|rem|mod|div|<<|>>|\*\*|\^|\\|dynamic|rdiv|xor|\$|é|foo|bar|#|p|~>|===)\)[^,)\]}|]', text):
        return 'prefix_op_glued_to_bracketed_operand'
    return None
