"""C07 Compiled programs compute ISO SLD-resolution answers.

Oracle: executable reference model (vt/miniprolog.py: leftmost selection, clauses in textual
order, depth first, ISO cut / if-then-else / negation semantics).  Random layered programs and a
fixed recursive list library are consulted as static code; for every query the full answer
sequence (order, multiplicity, bindings up to variable renaming) must equal the model's."""
from .. import arith, progen, miniprolog as mp
from ..terms import mkint, mkatom, mklist, mkc, NIL, show, to_text, rename_canonical

ID = 'C07'
LEVEL = 'exploration'
RULE = ('programs of 4-5 predicates in layers (ground fact tables; rules of 1-4 clauses with 1-3 body goals drawn from calls to lower '
        'layers with variable/constant/structure arguments, ==, \\==, @<, @>=, =, disjunction, if-then-else, negation and cuts at any '
        'body position; heads with repeated variables, constants and structures) plus the recursive list predicates app/3 mem/2 '
        'len/2 rev/3; queries: every predicate with all arguments free and with each argument given, 10 list-library queries incl. '
        'conjunctions with negation and arithmetic comparison. distinct = distinct (program, query); non-trivial = query with at '
        'least 2 answers or a program clause with cut/if-then-else/negation')
PARAMS = {'quick': {'n': 400}, 'thorough': {'n': 8000}}
MIN_EVAL = {'quick': 40000, 'thorough': 700000}
STRATA = ['facts-only', 'conjunctive', 'with-cut', 'with-ite', 'with-negation', 'with-disjunction', 'list-library', 'no-answers', 'many-answers']
ASSUMPTIONS = ['cases whose evaluation compares distinct unbound variables with @< / @>= are dropped (implementation-defined order)',
               'the reference interpreter is bounded to 200000 steps; programs are recursion-free apart from the list library']


def program_text(prog, prefix):
    name_of = lambda n: prefix + n
    lines = []
    for (n, a), clauses in prog.items():
        for h, b in clauses:
            lines.append(mp.clause_text(n, h, b, name_of, to_text) + '.')
    return '\n'.join(lines) + '\n'


def features(prog):
    f = set()
    for clauses in prog.values():
        for h, b in clauses:
            for k, name in (('cut', 'with-cut'), ('ite', 'with-ite'), ('not', 'with-negation'), ('or', 'with-disjunction')):
                if mp.has(b, k):
                    f.add(name)
    return f


def shard(ctx):
    rec = ctx.rec
    rng = ctx.rng
    w = ctx.worker()
    setup_q = 'use_module(library(lists)).'
    w.setup([{'op': 'raw', 'query': setup_q}])
    if ctx.shard == 0:
        # fixed probe of the shape behind known finding K41
        text = 'c07_k41(X, R) :- ( \\+ true -> G = X ; \\+ fail ), ( var(G) -> R = unbound ; R = bound(G) ).\n'
        if arith.load_clauses(rec, w, text):
            q = 'findall(G, c07_k41(k, G), R)'
            o = arith.run_goal(w, q, var='R')
            rec.case('with-negation', ('k41-probe',))
            if o != ('val', mklist([mkatom('unbound')])):
                rec.violation({'kind': 'variable_uninitialised_after_ite_with_negated_condition_and_negated_else'},
                              {'program': text, 'query': q, 'expected': '[unbound]', 'observed': arith.show_obs(o)[:200],
                               'jobs': [{'op': 'load', 'module': 'user', 'text': text}, {'op': 'run', 'goal': q + ' .', 'limit': 2, 'pred': 'runr'}]})
    if ctx.shard == 1:
        # fixed probe of the shape behind known finding K42
        text = ('c07_k42p(f(a), 2).\nc07_k42p(c, a).\nc07_k42p(f(a), b).\n'
                'c07_k42(A, B) :- ( c07_k42p(B, B) -> f(C) == C ; C \\== B ), c07_k42p(C, A).\n')
        if arith.load_clauses(rec, w, text):
            q = 'findall(X, c07_k42(X, a), R)'
            o = arith.run_goal(w, q, var='R')
            rec.case('with-ite', ('k42-probe',))
            if o != ('val', mklist([mkint(2), mkatom('a'), mkatom('b')])):
                rec.violation({'kind': 'call_fails_after_ite_with_variable_first_seen_in_inlined_comparisons'},
                              {'program': text, 'query': q, 'expected': '[2,a,b]', 'observed': arith.show_obs(o)[:200],
                               'jobs': [{'op': 'load', 'module': 'user', 'text': text}, {'op': 'run', 'goal': q + ' .', 'limit': 2, 'pred': 'runr'}]})
    if ctx.shard == 2:
        # fixed probe of the shape behind known finding K43
        text = ('c07_k43p(1, f(a)).\nc07_k43p(a, b).\nc07_k43p(1, a).\nc07_k43q([a]).\nc07_k43q(c).\nc07_k43r(_, B) :- c07_k43q(B), c07_k43q(_).\n'
                'c07_k43(A) :- ( ( c07_k43p(f(B), A) -> c07_k43r(C, A) ; c07_k43r(B, C) ) -> c07_k43p(A, B) ; c07_k43q(C) ).\n')
        if arith.load_clauses(rec, w, text):
            q = 'findall(X, c07_k43(X), R)'
            o = arith.run_goal(w, q, var='R')
            rec.case('with-ite', ('k43-probe',))
            if o != ('val', mklist([mkint(1), mkatom('a'), mkint(1)])):
                rec.violation({'kind': 'variable_first_seen_in_structure_of_failed_condition_is_dangling'},
                              {'program': text, 'query': q, 'expected': '[1,a,1]', 'observed': arith.show_obs(o)[:200],
                               'jobs': [{'op': 'load', 'module': 'user', 'text': text}, {'op': 'run', 'goal': q + ' .', 'limit': 2, 'pred': 'runr'}]})
    if ctx.shard == 3:
        # fixed probe of known finding K51
        text = 'c07_k51q(a).\nc07_k51q(b).\nc07_k51(1) :- ( ( c07_k51q(X), !, X = b ) -> true ; fail ).\nc07_k51(2).\n'
        if arith.load_clauses(rec, w, text):
            q = 'findall(X, c07_k51(X), R)'
            o = arith.run_goal(w, q, var='R')
            rec.case('with-cut', ('k51-probe',))
            if o != ('val', mklist([mkint(2)])):
                rec.violation({'kind': 'cut_in_if_then_else_condition_is_not_local'},
                              {'program': text, 'query': q, 'expected': '[2]', 'observed': arith.show_obs(o)[:200],
                               'jobs': [{'op': 'load', 'module': 'user', 'text': text}, {'op': 'run', 'goal': q + ' .', 'limit': 2, 'pred': 'runr'}]})
    if ctx.shard == 4:
        # fixed probe of known finding K52
        text = 'c07_k52p(a, 2).\nc07_k52(1) :- \\+ ( G = a, !, \\+ c07_k52p(b, G) ).\nc07_k52(2).\n'
        if arith.load_clauses(rec, w, text):
            q = 'findall(X, c07_k52(X), R)'
            o = arith.run_goal(w, q, var='R')
            rec.case('with-negation', ('k52-probe',))
            if o != ('val', mklist([mkint(2)])):
                rec.violation({'kind': 'negation_after_cut_inside_negation_wrong'},
                              {'program': text, 'query': q, 'expected': '[2]', 'observed': arith.show_obs(o)[:200],
                               'jobs': [{'op': 'load', 'module': 'user', 'text': text}, {'op': 'run', 'goal': q + ' .', 'limit': 2, 'pred': 'runr'}]})
    if ctx.shard == 5:
        local_cut_set(rec, w)
    for i in range(ctx.params['n']):
        prog, sigs = progen.rprogram(rng, cuts=True, lib=True)
        prefix = 'c07_%d_%d_' % (ctx.shard, i)
        text = program_text(prog, prefix)
        if not arith.load_clauses(rec, w, text):
            continue
        feats = features(prog)
        name_of = lambda n: prefix + n
        qs = progen.rqueries(rng, sigs, 7) + (rng.sample(progen.lib_queries(rng), 3))
        for goal, tmpl in qs:
            m = mp.Machine(prog)
            try:
                expected = m.answers(goal, tmpl, limit=300)
            except (mp.Budget, RecursionError):
                rec.info['model_dropped'] += 1
                continue
            if len(expected) >= 300:
                rec.info['model_dropped'] += 1
                continue
            gtext = mp.body_text(goal, name_of, to_text)
            q = 'findall(%s, ( %s ), R)' % (to_text(tmpl), gtext)
            o = arith.run_goal(w, q, var='R', timeout=30)
            is_lib = goal[0] == 'and' or goal[1] in ('app', 'mem', 'len', 'rev')
            st = 'list-library' if is_lib else 'no-answers' if not expected else 'many-answers' if len(expected) > 3 else \
                (sorted(feats)[i % len(feats)] if feats else ('facts-only' if goal[1] in ('p0', 'q0') else 'conjunctive'))
            rec.case(st, (text, gtext), nontrivial=len(expected) >= 2 or bool(feats))
            for f in feats:
                if not is_lib and f != st:
                    rec.case(f, (text, gtext, f))
            rec.info['answers_compared'] += len(expected)
            if o[0] == 'timeout':
                rec.inconc('timeout')
                continue
            want = mklist(expected)
            if o[0] == 'val' and rename_canonical(o[1]) == rename_canonical(want):
                if len(rec.samples) < 5 and i % 31 == 0 and len(expected) > 1:
                    rec.sample({'query': gtext, 'answers': [show(x) for x in expected][:6]})
                continue
            kind = 'answers_differ_from_sld_model' if o[0] == 'val' else o[0]
            sig = {'kind': kind, 'features': '+'.join(sorted(feats)) or 'plain', 'library_query': is_lib}
            arith.panic_sig(sig, o)
            rec.violation(sig, {'program': text, 'query': q, 'expected': show(want)[:600], 'observed': arith.show_obs(o)[:600],
                                'jobs': [{'op': 'raw', 'query': setup_q}, {'op': 'load', 'module': 'user', 'text': text},
                                         {'op': 'run', 'goal': q + ' .', 'limit': 2, 'pred': 'runr'}]})


LOCAL_CUT_PROGRAM = """
c07_lq(a). c07_lq(b).
c07_l1(1) :- \\+ ( c07_lq(_), !, fail ).
c07_l1(2).
c07_l2(1) :- \\+ ( c07_lq(X), !, X = a ).
c07_l2(2).
c07_l3(1) :- \\+ ( c07_lq(X), !, X = a ), c07_lq(_), !.
c07_l3(2).
c07_l4(1) :- c07_lq(_), \\+ ( c07_lq(X), !, X = a ).
c07_l4(2).
c07_l5(1) :- \\+ ( c07_lq(_), !, fail ), c07_lq(Y), !, Y = z.
c07_l5(2).
c07_l6(1) :- \\+ ( c07_lq(X), !, X = b ), c07_lq(Y), !, Y = z.
c07_l6(2).
c07_l7(1) :- \\+ ( \\+ fail, !, fail ).
c07_l7(2).
c07_l8(X) :- c07_lq(X), \\+ ( \\+ c07_lq(z), !, fail ).
c07_l8(c).
c07_l9(X) :- c07_lq(X), \\+ \\+ ( c07_lq(_), ! ).
c07_l9(c).
c07_l10(X) :- ( c07_lq(X), X == b -> true ; X = none ).
c07_l10(c).
c07_l11(X) :- once(( c07_lq(X), X \\== a )).
c07_l11(c).
c07_l12(X) :- c07_lq(X), call(( c07_lq(_), ! )).
c07_l12(c).
"""
LOCAL_CUT_EXPECTED = {'c07_l1': '[1,2]', 'c07_l2': '[2]', 'c07_l3': '[2]', 'c07_l4': '[2]', 'c07_l5': '[]', 'c07_l6': '[]', 'c07_l7': '[1,2]',
                      'c07_l8': '[a,b,c]', 'c07_l9': '[a,b,c]', 'c07_l10': '[b,c]', 'c07_l11': '[b,c]', 'c07_l12': '[a,b,c]'}


def local_cut_set(rec, w):
    """fixed clauses with cuts that are local to a negation, a condition-free if-then-else, once/1 or call/1; expected answers by ISO 7.8.x"""
    text = LOCAL_CUT_PROGRAM.replace('\\\\', '\\')
    if not arith.load_clauses(rec, w, text):
        return
    for name, want in sorted(LOCAL_CUT_EXPECTED.items()):
        q = 'findall(X, %s(X), R)' % name
        o = arith.run_goal(w, q, var='R')
        rec.case('with-cut', ('local-cut', name))
        items = [mkint(int(x)) if x.isdigit() else mkatom(x) for x in want.strip('[]').split(',') if x]
        if o != ('val', mklist(items)):
            rec.violation({'kind': 'local_cut_clause_wrong', 'clause': name}, {'program': text, 'query': q, 'expected': want, 'observed': arith.show_obs(o)[:200],
                                                                                'jobs': [{'op': 'raw', 'query': 'use_module(library(charsio)).'}, {'op': 'load', 'module': 'user', 'text': text},
                                                                                         {'op': 'run', 'goal': q + ' .', 'limit': 2, 'pred': 'runr'}]})
