"""C49 Integer relation builtins enumerate exactly their relations.

Oracle: reference model (the mathematical relations on Python ints) for between/3, length/2,
numlist/2,3 and succ/2 in every instantiation mode, including enumeration order, finite
prefixes of infinite enumerations, and the documented errors."""
from .. import simple
from ..terms import mkint, mkatom, mklist, mkc, mkvar, NIL, to_text

ID = 'C49'
LEVEL = 'exploration'
RULE = ('arguments from {-3..12, 2^55-1, 2^55, 2^55+1, 2^64, integers boxed through bignum arithmetic, floats, atoms, unbound}; '
        'between/3 with X bound/unbound (full enumeration for small ranges, membership at the ends, empty ranges, bignum '
        'ranges); length/2 for proper lists, partial lists with N unbound (first 4 lengths) and bound (exactly one completion or '
        'failure), strings, negative/ill-typed N; numlist/3 (bound bounds, also bignum) and numlist/2; succ/2 in all modes incl. 0, '
        'negatives, non-integers, both unbound; every ISO/documented error. distinct = distinct goals; non-trivial = all')
PARAMS = {'quick': {'n': 2500}, 'thorough': {'n': 100000}}
MIN_EVAL = {'quick': 15000, 'thorough': 800000}
STRATA = ['between-enum', 'between-check', 'between-big', 'between-errors', 'length-proper', 'length-partial-unbound', 'length-partial-bound',
          'length-errors', 'numlist', 'numlist-partial', 'succ', 'succ-errors']
ASSUMPTIONS = ['infinite enumerations are compared on a finite prefix', 'errors compared on the formal\'s functor and first argument']

BIG = [2 ** 55 - 1, 2 ** 55, 2 ** 55 + 1, 2 ** 64, -(2 ** 55), -(2 ** 55) - 1, -(2 ** 64)]


def I(rng, n):
    """integer text: literal, or produced through bignum arithmetic"""
    if rng.random() < 0.25:
        B = rng.choice([2 ** 60, 2 ** 64, 10 ** 30])
        return '_B%d' % rng.randint(0, 10 ** 6), n, 'B is %d - %d + (%d)' % (B, B, n)
    return str(n) if n >= 0 else '(%d)' % n, n, None


def gen_cases(rng, n):
    for i in range(n):
        r = i % 11
        pre = []

        def lit(v):
            txt, _, goal = I(rng, v)
            if goal:
                goal = goal.replace('B is', txt + ' is')
                pre.append(goal)
            return txt

        def G(goal):
            return ''.join(p + ', ' for p in pre) + goal
        if r == 0:
            lo = rng.randint(-3, 8)
            hi = lo + rng.randint(-2, 6)
            exp = mklist([mkint(x) for x in range(lo, hi + 1)])
            yield 'between-enum', G('findall(X, between(%s, %s, X), R)' % (lit(lo), lit(hi))), ('val', exp)
        elif r == 1:
            lo = rng.randint(-3, 8)
            hi = lo + rng.randint(-1, 6)
            x = rng.choice([lo, hi, lo - 1, hi + 1, (lo + hi) // 2])
            yield 'between-check', G('( between(%s, %s, %s) -> R = y ; R = n )' % (lit(lo), lit(hi), lit(x))), ('val', mkatom('y' if lo <= x <= hi else 'n'))
        elif r == 2:
            b = rng.choice(BIG)
            lo, hi = b - rng.randint(0, 2), b + rng.randint(0, 3)
            exp = mklist([mkint(x) for x in range(lo, hi + 1)])
            yield 'between-big', G('findall(X, between(%s, %s, X), R)' % (lit(lo), lit(hi))), ('val', exp)
            x = rng.choice([lo, hi, lo - 1, hi + 1])
            yield 'between-big', G('( between(%s, %s, %s) -> R = y ; R = n )' % (lit(lo), lit(hi), lit(x))), ('val', mkatom('y' if lo <= x <= hi else 'n'))
        elif r == 3:
            yield rng.choice([
                ('between-errors', 'between(_, 3, R)', ('err', 'instantiation_error')),
                ('between-errors', 'between(1, _, R)', ('err', 'instantiation_error')),
                ('between-errors', 'between(a, 3, R)', ('err', 'type_error', ('a', 'integer'))),
                ('between-errors', 'between(1, b, R)', ('err', 'type_error', ('a', 'integer'))),
                ('between-errors', 'between(1.0, 3, R)', ('err', 'type_error', ('a', 'integer'))),
                ('between-errors', 'between(1, 3.0, R)', ('err', 'type_error', ('a', 'integer'))),
                ('between-errors', 'between(1, 3, a), R = x', ('err', 'type_error', ('a', 'integer'))),
                ('between-errors', 'between(1, 3, 2.0), R = x', ('err', 'type_error', ('a', 'integer'))),
            ])
        elif r == 4:
            k = rng.randint(0, 12)
            kind = rng.random()
            if kind < 0.4:
                L = '[%s]' % ','.join(rng.choice(['a', '_', '1', 'f(x)']) for _ in range(k))
            elif kind < 0.7:
                L = '"%s"' % ''.join(rng.choice('abc') for _ in range(k))
            else:
                L = '[%s]' % ','.join('x' for _ in range(k))
            yield 'length-proper', 'length(%s, R)' % L, ('val', mkint(k))
            n2 = rng.choice([k, k + 1, 0, k - 1])
            if n2 >= 0:
                yield 'length-proper', G('( length(%s, %s) -> R = y ; R = n )' % (L, lit(n2))), ('val', mkatom('y' if n2 == k else 'n'))
        elif r == 5:
            k = rng.randint(0, 4)
            pref = ','.join('e%d' % j for j in range(k))
            L = '[%s|T]' % pref if k else 'T'
            # first 4 solutions: lengths k, k+1, ...
            exp = mklist([mkc('-', mkint(k + j), mklist([mkatom('e%d' % x) for x in range(k)] + [mkvar(1000 * (j + 1) + y) for y in range(j)])) for j in range(4)])
            yield 'length-partial-unbound', ('bb_put(c49n, 0), findall(N-L, ( L = %s, length(L, N), bb_get(c49n, C), C1 is C + 1, bb_put(c49n, C1), '
                                             '( C1 >= 4 -> ! ; true ) ), R0), R = R0') % L.replace('T', 'T'), ('check', first4(exp))
        elif r == 6:
            k = rng.randint(0, 4)
            n2 = rng.randint(0, 7)
            pref = ','.join('e%d' % j for j in range(k))
            L = '[%s|T]' % pref if k else 'T'
            if n2 >= k:
                exp = mklist([mklist([mkatom('e%d' % x) for x in range(k)] + [mkvar(100 + y) for y in range(n2 - k)])])
            else:
                exp = NIL
            yield 'length-partial-bound', G('findall(L, ( L = %s, length(L, %s) ), R)' % (L, lit(n2))), ('val', exp)
        elif r == 7:
            yield rng.choice([
                ('length-errors', 'length(L, -1), R = L', ('err', 'domain_error', ('a', 'not_less_than_zero'))),
                ('length-errors', 'length([a], -1), R = x', ('err', 'domain_error', ('a', 'not_less_than_zero'))),
                ('length-errors', 'length(L, a), R = L', ('err', 'type_error', ('a', 'integer'))),
                ('length-errors', 'length(L, 1.0), R = L', ('err', 'type_error', ('a', 'integer'))),
                ('length-errors', '( length([a|b], N) -> R = N ; R = failed )', ('val', mkatom('failed'))),
                ('length-errors', '( length(foo, N) -> R = N ; R = failed )', ('val', mkatom('failed'))),
                ('length-errors', '( length([a,b], 3) -> R = y ; R = n )', ('val', mkatom('n'))),
            ])
        elif r == 8:
            lo = rng.choice([rng.randint(-3, 5)] + BIG[:4])
            hi = lo + rng.randint(-2, 5)
            exp = mklist([mkint(x) for x in range(lo, hi + 1)])
            if hi >= lo:
                yield 'numlist', G('numlist(%s, %s, R)' % (lit(lo), lit(hi))), ('val', exp)
            else:
                yield 'numlist', G('( numlist(%s, %s, L) -> R = L ; R = failed )' % (lit(lo), lit(hi))), ('val', mkatom('failed'))
            u = rng.randint(0, 9)
            yield 'numlist', G('numlist(%s, R)' % lit(u)), ('val', mklist([mkint(x) for x in range(1, u + 1)]))
            # partial modes of numlist/3: a finite prefix of the enumeration must be sound, free of duplicates and fair
            mode = rng.choice(['both-unbound', 'lower-bound', 'upper-bound', 'list-bound'])
            if mode == 'both-unbound':
                yield 'numlist-partial', 'findall(L-U-Xs, ( call_nth(numlist(L, U, Xs), N), ( N >= 400 -> ! ; true ) ), R)', ('check', numlist_prefix_check(None, None, 3))
            elif mode == 'lower-bound':
                k = rng.randint(-4, 4)
                yield 'numlist-partial', 'findall(%d-U-Xs, ( call_nth(numlist(%d, U, Xs), N), ( N >= 12 -> ! ; true ) ), R)' % (k, k), ('check', numlist_prefix_check(k, None, 8))
            elif mode == 'upper-bound':
                k = rng.randint(-4, 4)
                yield 'numlist-partial', 'findall(L-(%d)-Xs, ( call_nth(numlist(L, %d, Xs), N), ( N >= 12 -> ! ; true ) ), R)' % (k, k), ('check', numlist_prefix_check(None, k, 8))
            else:
                lo = rng.randint(-4, 4)
                xs = list(range(lo, lo + rng.randint(1, 5)))
                # the relation is finite here (one tuple): the search for further answers must end (bounded: 3*10^6 inferences)
                yield ('numlist-partial', 'call_with_inference_limit(findall(L-U, numlist(L, U, %s), R0), 3000000, Lim), R = Lim-R0' % str(xs).replace(' ', ''),
                       ('check', lambda o, xs=xs: None if o == ('val', mkc('-', mkatom('!'), mklist([mkc('-', mkint(xs[0]), mkint(xs[-1]))])))
                        or o == ('val', mkc('-', mkatom('true'), mklist([mkc('-', mkint(xs[0]), mkint(xs[-1]))])))
                        else ('enumeration_does_not_terminate_for_finite_relation' if o[0] == 'val' and o[1][0] == 'c' and o[1][2][0] == mkatom('inference_limit_exceeded') else 'wrong_answers')),
                       {'mode': 'list-bound'})
        elif r == 9:
            v = rng.choice([0, 1, 2, 7, 2 ** 55 - 1, 2 ** 55, 2 ** 64])
            yield 'succ', G('succ(%s, R)' % lit(v)), ('val', mkint(v + 1))
            if v > 0:
                yield 'succ', G('succ(R, %s)' % lit(v)), ('val', mkint(v - 1))
            yield 'succ', G('( succ(%s, %s) -> R = y ; R = n )' % (lit(v), lit(v + 1))), ('val', mkatom('y'))
            yield 'succ', G('( succ(%s, %s) -> R = y ; R = n )' % (lit(v + 1), lit(v))), ('val', mkatom('n'))
            yield 'succ', '( succ(X, 0) -> R = X ; R = failed )', ('val', mkatom('failed'))
        else:
            yield rng.choice([
                ('succ-errors', 'succ(_, R)', ('err', 'instantiation_error')),
                ('succ-errors', 'succ(a, R)', ('any_err',)),
                ('succ-errors', 'succ(R, a)', ('any_err',)),
                ('succ-errors', 'succ(-1, R)', ('any_err',)),
                ('succ-errors', 'succ(R, -1)', ('any_err',)),
                ('succ-errors', 'succ(1.0, R)', ('any_err',)),
            ])


def first4(exp):
    from ..terms import rename_canonical

    def check(o):
        if o[0] != 'val':
            return o[0]
        if rename_canonical(o[1]) == rename_canonical(exp):
            return None
        return 'wrong_enumeration'
    return check


def numlist_prefix_check(lo, hi, span):
    """prefix of numlist(L, U, Xs) answers: every answer sound, no duplicates, and every pair within `span` of the bound
    parts (or of 0) must have appeared"""
    def check(o):
        if o[0] != 'val':
            return o[0]
        items = [] if o[1] == NIL else list(o[1][1])
        seen = set()
        for it in items:
            try:
                l, u, xs = it[2][0][2][0][1], it[2][0][2][1][1], it[2][1]
                got = [] if xs == NIL else [x[1] for x in xs[1]]
            except Exception:
                return 'garbled_answer'
            if got != list(range(l, u + 1)) or not got:
                return 'unsound_answer'
            if (l, u) in seen:
                return 'duplicate_answer'
            seen.add((l, u))
            if lo is not None and l != lo or hi is not None and u != hi:
                return 'answer_ignores_bound_argument'
        if lo is None and hi is None:
            want = {(a, b) for a in range(-span, span + 1) for b in range(a, span + 1)}
        elif lo is not None:
            want = {(lo, b) for b in range(lo, lo + span)}
        else:
            want = {(a, hi) for a in range(hi - span + 1, hi + 1)}
        missing = want - seen
        return None if not missing else 'enumeration_misses_tuples'
    return check


def shard(ctx):
    w = ctx.worker()
    w.use_modules(['lists', 'between', 'iso_ext'])
    simple.run_cases(ctx, w, gen_cases(ctx.rng, ctx.params['n']),
                     setup_query='use_module(library(lists)), use_module(library(between)), use_module(library(iso_ext)).',
                     pred_of=lambda g: next((p for p in ('between', 'length', 'numlist', 'succ') if p + '(' in g), '?'))
