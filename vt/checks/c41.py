"""C41 JSON text and JSON terms convert faithfully both ways.

Oracle: reference (Python json) mapped to the documented term form; generate->parse identity;
rejection of invalid documents."""
import json
import math

from .. import simple, arith
from ..terms import mkint, mkfloat, mkatom, mklist, mkstr, mkc, NIL, dq_string, show, bits2f, to_text
from ..refnum import ulp_distance

ID = 'C41'
LEVEL = 'exploration'
RULE = ('random JSON values of depth <= 4 (objects incl. duplicate keys and empty, arrays, strings with every escape \\" \\\\ \\/ \\b '
        '\\f \\n \\r \\t \\uXXXX, raw multi-byte characters, numbers: integers of any size, -0, fractions, exponents with sign and '
        'case, true/false/null) rendered with random whitespace; parse direction: first solution of phrase(json_chars(T), Text) '
        'vs json.loads mapped to pairs/list/string/number/boolean/null terms (numbers: exact for integers, <= 2 ulp for '
        'non-integers); generate direction: text produced from the term must load to the same value and parse back to the same '
        'term; invalid documents (trailing commas, single quotes, leading zeros, +1, bare control characters, NaN, truncated '
        'documents, garbage after the value) must have no parse. distinct = distinct texts; non-trivial = all')
PARAMS = {'quick': {'n': 4000}, 'thorough': {'n': 100000}}
MIN_EVAL = {'quick': 15000, 'thorough': 700000}
STRATA = ['parse', 'generate', 'roundtrip', 'invalid']
ASSUMPTIONS = ['Python json.loads is the reference reading of valid JSON', 'non-integer numbers are compared within 2 ulp (the library '
               'computes them arithmetically)', 'only the first solution is compared (the library yields laxer alternatives on backtracking)',
               'surrogate-pair escapes are not generated (see DESIGN.md)']


def rstring(rng):
    pool = ['a', 'b', ' ', 'é', '日', '😀', '"', '\\', '/', '\b', '\f', '\n', '\r', '\t', '\x01', '\x1f', 'z', '0', '{', ']', ':', ',', "'"]
    return ''.join(rng.choice(pool) for _ in range(rng.randint(0, 8)))


def rnumber_text(rng):
    r = rng.random()
    if r < 0.3:
        return str(rng.choice([0, 1, -1, 7, 42, -13, 10 ** 20, -(2 ** 64), 2 ** 55, 123456789]))
    if r < 0.35:
        return '-0'
    ip = str(rng.choice([0, 1, 12, 305, 99999]))
    fp = ''.join(rng.choice('0123456789') for _ in range(rng.randint(1, 6)))
    s = ('-' if rng.random() < 0.3 else '') + ip
    if rng.random() < 0.7:
        s += '.' + fp
    if rng.random() < 0.5:
        s += rng.choice(['e', 'E']) + rng.choice(['', '+', '-']) + rng.choice(['', '', '0', '00']) + str(rng.randint(0, 20))     # JSON allows leading zeros in the exponent
    return s


class Num:
    def __init__(self, text):
        self.text = text


def rvalue(rng, depth):
    r = rng.random()
    if depth <= 0 or r < 0.45:
        k = rng.random()
        if k < 0.3:
            return rstring(rng)
        if k < 0.7:
            return Num(rnumber_text(rng))
        return rng.choice([True, False, None])
    if r < 0.72:
        return [rvalue(rng, depth - 1) for _ in range(rng.randint(0, 4))]
    return ('obj', [(rstring(rng) if rng.random() < 0.8 else 'k', rvalue(rng, depth - 1)) for _ in range(rng.randint(0, 4))])


def jescape(rng, s):
    out = []
    for ch in s:
        o = ord(ch)
        if ch == '"':
            out.append('\\"')
        elif ch == '\\':
            out.append('\\\\')
        elif ch == '/':
            out.append(rng.choice(['/', '\\/']))
        elif ch in '\b\f\n\r\t':
            out.append({'\b': '\\b', '\f': '\\f', '\n': '\\n', '\r': '\\r', '\t': '\\t'}[ch] if rng.random() < 0.7 else '\\u%04x' % o)
        elif o < 32:
            out.append(('\\u%04x' if rng.random() < 0.5 else '\\u%04X') % o)
        elif o < 0x10000 and rng.random() < 0.15:
            out.append('\\u%04x' % o)
        else:
            out.append(ch)
    return '"' + ''.join(out) + '"'


def render(rng, v):
    ws = lambda: rng.choice(['', '', ' ', '\n', '\t', '  ', '\r\n'])
    if isinstance(v, Num):
        return v.text
    if v is True:
        return 'true'
    if v is False:
        return 'false'
    if v is None:
        return 'null'
    if isinstance(v, str):
        return jescape(rng, v)
    if isinstance(v, list):
        return '[' + ws() + (ws() + ',' + ws()).join(render(rng, x) for x in v) + ws() + ']'
    return '{' + ws() + (ws() + ',' + ws()).join(jescape(rng, k) + ws() + ':' + ws() + render(rng, x) for k, x in v[1]) + ws() + '}'


def expected_term(v):
    """documented term form; numbers as ('num', python value)"""
    if isinstance(v, Num):
        return mkc('number', ('num', json.loads(v.text), v.text))
    if v is True or v is False:
        return mkc('boolean', mkatom('true' if v else 'false'))
    if v is None:
        return mkatom('null')
    if isinstance(v, str):
        return mkc('string', mkstr(v))
    if isinstance(v, list):
        return mkc('list', mklist([expected_term(x) for x in v]))
    return mkc('pairs', mklist([mkc('-', mkc('string', mkstr(k)), expected_term(x)) for k, x in v[1]]))


def match(exp, got):
    """structural match where ('num', value, text) matches a number term"""
    if exp[0] == 'num':
        val = exp[1]
        if got[0] == 'i':
            return float(val) == float(got[1]) if not isinstance(val, int) else val == got[1]
        if got[0] == 'f':
            g = bits2f(got[1])
            if isinstance(val, int):
                return float(val) == g
            return ulp_distance(float(val), g) <= 2
        return False
    if exp[0] != got[0]:
        return False
    if exp[0] == 'c':
        return exp[1] == got[1] and len(exp[2]) == len(got[2]) and all(match(a, b) for a, b in zip(exp[2], got[2]))
    if exp[0] == 'l':
        return len(exp[1]) == len(got[1]) and all(match(a, b) for a, b in zip(exp[1], got[1])) and match(exp[2], got[2])
    return exp == got


def to_py(got):
    """engine JSON term -> Python value (for the generate direction)"""
    if got == ('a', 'null'):
        return None
    if got[0] == 'c' and got[1] == 'boolean':
        return got[2][0] == ('a', 'true')
    if got[0] == 'c' and got[1] == 'string':
        return '' if got[2][0] == NIL else ''.join(x[1] for x in got[2][0][1])
    return None


INVALID = ['', ' ', '[1,]', '{"a":1,}', "['a']", '{a:1}', '01', '+1', '1.', '.5', '1e', '-', 'NaN', 'Infinity', '[1 2]', '{"a" 1}', '"abc', '[1', '{"a":',
           'tru', 'nul', 'True', '"a\x01b"', '"\\q"', '"\\u12"', '1 2', '[] []', '{} x', '"a"b', '[1,,2]', '{"a":1 "b":2}', '{1:2}', '--1', '1e+', '0x10', "\"\t\""]


def gen_cases(rng, n):
    for i in range(n):
        r = i % 4
        if r == 0:
            v = rvalue(rng, rng.choice([0, 1, 2, 3, 4]))
            text = rng.choice(['', ' ', '\n']) + render(rng, v) + rng.choice(['', ' ', '\n'])
            exp = expected_term(v)
            yield 'parse', '( phrase(json_chars(T), %s) -> R = T ; R = \'$no_parse\' )' % dq_string(text), ('check', lambda o, exp=exp: None if (o[0] == 'val' and match(exp, o[1])) else ('wrong_parse' if o[0] == 'val' else o[0]))
        elif r == 1:
            v = rvalue(rng, rng.choice([0, 1, 2, 3]))
            t = concrete(rng, expected_term(v))
            pyv = term_to_py(t)
            yield 'generate', '( phrase(json_chars(%s), Cs) -> R = Cs ; R = \'$no_text\' )' % to_text(t), ('check', lambda o, pyv=pyv: gen_check(o, pyv))
        elif r == 2:
            v = rvalue(rng, rng.choice([0, 1, 2, 3]))
            t = concrete(rng, expected_term(v))
            yield 'roundtrip', '( phrase(json_chars(%s), Cs), phrase(json_chars(T2), Cs) -> R = T2 ; R = \'$failed\' )' % to_text(t), ('check', lambda o, t=t: None if (o[0] == 'val' and match_concrete(t, o[1])) else ('roundtrip_differs' if o[0] == 'val' else o[0]))
        else:
            text = rng.choice(INVALID)
            if rng.random() < 0.4:
                good = render(rng, rvalue(rng, 2))
                text = rng.choice([good + ',', good[:-1] if len(good) > 1 else 'x', good + ' ' + good, '[' + good, good + ']'])
                try:
                    json.loads(text)
                    continue
                except ValueError:
                    pass
            yield 'invalid', '( catch(phrase(json_chars(T), %s), _, fail) -> R = parsed(T) ; R = rejected )' % dq_string(text), ('val', mkatom('rejected')), {'text': text}


def concrete(rng, t):
    """replace ('num', v, text) leaves by concrete number terms the generator can print"""
    if t[0] == 'num':
        v = t[1]
        if isinstance(v, int):
            return mkint(v)
        return mkfloat(float(v))
    if t[0] == 'c':
        return ('c', t[1], tuple(concrete(rng, a) for a in t[2]))
    if t[0] == 'l':
        return mklist([concrete(rng, a) for a in t[1]], concrete(rng, t[2]))
    return t


def term_to_py(t):
    if t == ('a', 'null'):
        return None
    if t[0] == 'c':
        a = t[2][0]
        if t[1] == 'boolean':
            return a == ('a', 'true')
        if t[1] == 'string':
            return '' if a == NIL else ''.join(x[1] for x in a[1])
        if t[1] == 'number':
            return a[1] if a[0] == 'i' else bits2f(a[1])
        if t[1] == 'list':
            return [] if a == NIL else [term_to_py(x) for x in a[1]]
        if t[1] == 'pairs':
            return ('obj', [] if a == NIL else [(term_to_py(p[2][0]), term_to_py(p[2][1])) for p in a[1]])
    raise ValueError(t)


def py_equal(a, b):
    if isinstance(a, tuple) and a and a[0] == 'obj':
        # json.loads with object_pairs_hook gives list of pairs
        return isinstance(b, tuple) and b[0] == 'obj' and len(a[1]) == len(b[1]) and all(ka == kb and py_equal(va, vb) for (ka, va), (kb, vb) in zip(a[1], b[1]))
    if isinstance(a, list):
        return isinstance(b, list) and len(a) == len(b) and all(py_equal(x, y) for x, y in zip(a, b))
    if isinstance(a, float) or isinstance(b, float):
        if isinstance(a, bool) or isinstance(b, bool) or a is None or b is None or isinstance(a, str) or isinstance(b, str):
            return False
        return float(a) == float(b) or ulp_distance(float(a), float(b)) <= 2
    return a == b and type(a) == type(b)


def gen_check(o, pyv):
    if o[0] != 'val':
        return o[0]
    if o[1] == ('a', '$no_text'):
        return 'no_text_generated'
    cs = o[1]
    text = '' if cs == NIL else ''.join(x[1] for x in cs[1])
    try:
        loaded = json.loads(text, object_pairs_hook=lambda ps: ('obj', ps))
    except ValueError:
        return 'generated_text_is_not_json'
    return None if py_equal(pyv, loaded) else 'generated_text_loads_differently'


def match_concrete(t, got):
    if t[0] in 'if' and got[0] in 'if':
        a = t[1] if t[0] == 'i' else bits2f(t[1])
        b = got[1] if got[0] == 'i' else bits2f(got[1])
        return float(a) == float(b) or ulp_distance(float(a), float(b)) <= 2
    if t[0] != got[0]:
        return False
    if t[0] == 'c':
        return t[1] == got[1] and len(t[2]) == len(got[2]) and all(match_concrete(a, b) for a, b in zip(t[2], got[2]))
    if t[0] == 'l':
        return len(t[1]) == len(got[1]) and all(match_concrete(a, b) for a, b in zip(t[1], got[1])) and match_concrete(t[2], got[2])
    return t == got


def shard(ctx):
    w = ctx.worker()
    w.use_modules(['lists', 'dcgs', 'serialization/json'])
    simple.run_cases(ctx, w, gen_cases(ctx.rng, ctx.params['n']),
                     setup_query='use_module(library(lists)), use_module(library(dcgs)), use_module(library(serialization/json)).', timeout=40)
