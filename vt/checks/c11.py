"""C11 Backtracking restores exactly the pre-goal state.

Oracle: invariant at a hook point.  A state (older unbound variable, partially bound structure,
bound constant, attributed variable, backtrackable and non-backtrackable global variables) is
snapshotted with copy_term/3 before and after a context that runs a random action sequence and then
fails / is backtracked over / is abandoned; the two snapshots must be variants (including residual
goals), the backtrackable global must be back at its old value and the non-backtrackable one must
hold the last value written."""
from .. import arith
from ..terms import mkint, mkatom, mklist, mkc, NIL, show, rename_canonical

ID = 'C11'
LEVEL = 'exploration'
RULE = ('action sequences of 1-6 steps (bind the older variable to constants, structures with new variables, strings, the inner '
        'variable, alias old and new variables in both directions, bind or alias the attributed variable, post dif/2 and freeze/2 on '
        'old and new variables, bb_b_put/2, bb_put/2, build lists over old variables, copy the state) inside 9 contexts: \\+ (.., fail), '
        '\\+ \\+ .., failing if-then-else condition, findall/3, catch/3 with a throw after the actions, exhausted disjunction, forall/2, '
        'call_cleanup-free once/1 followed by failure, nested combination of two contexts; the test body is run both as a compiled '
        'clause (permanent variables) and as a called term (heap variables); attributed state: none, dif/2, freeze/2, both. '
        'distinct = distinct (actions, context, attribute state, run mode); non-trivial = all')
PARAMS = {'quick': {'n': 300}, 'thorough': {'n': 9000}}
MIN_EVAL = {'quick': 25000, 'thorough': 1500000}
STRATA = ['negation', 'double-negation', 'ite-condition', 'findall', 'catch-recovery', 'disjunction', 'forall', 'once-then-fail', 'nested', 'compiled-clause',
          'called-term', 'attr-none', 'attr-dif', 'attr-freeze', 'attr-both', 'global-variables']
ASSUMPTIONS = ['the state snapshot is copy_term/3 (term copy plus residual goals); two snapshots are equal when they are variants']

CONTEXTS = [('negation', '\\+ ( %s, fail )'), ('double-negation', '\\+ \\+ ( %s )'), ('ite-condition', '( ( %s, fail ) -> true ; true )'),
            ('findall', 'findall(x, ( %s ), _)'), ('catch-recovery', 'catch(( %s, throw(c11_ball) ), c11_ball, true)'),
            ('disjunction', '( %s, fail ; true )'), ('forall', '( forall(( %s ), fail) -> true ; true )'), ('once-then-fail', '( once(( %s )), fail ; true )')]


def gen_actions(rng, shard, i):
    """actions keep the sequence consistent (no action can fail), so that every action runs"""
    acts = []
    bound = set()
    nv = 0
    last_put = None
    for _ in range(rng.randint(1, 6)):
        r = rng.random()
        nv += 1
        N = 'N%d' % nv
        if r < 0.14 and 'A' not in bound:
            acts.append(rng.choice(['A = 1', 'A = g(%s)' % N, 'A = "some text"', 'A = [x, %s|_]' % N, 'A = 100000000000000000000', 'A = h(%s, %s)' % (N, N)]))
            bound.add('A')
        elif r < 0.24 and 'O' not in bound:
            acts.append(rng.choice(['O = 2', 'O = k(%s)' % N, 'O = [1,2,3]']))
            bound.add('O')
        elif r < 0.32 and 'A' not in bound and 'O' not in bound:
            acts.append(rng.choice(['A = O', 'O = A']))
            bound.add('A')
        elif r < 0.42:
            acts.append(rng.choice(['%s = A' % N, '%s = f(A, O)' % N, '%s = D' % N, 'length(%s, 3), %s = [A|_]' % (N, N)]))
        elif r < 0.5 and 'D' not in bound:
            acts.append(rng.choice(['D = 5', 'D = %s' % N, 'D = q(%s)' % N]))
            bound.add('D')
        elif r < 0.6:
            acts.append(rng.choice(['dif(%s, w)' % N, 'dif(A, b%d)' % nv, 'dif(O-%s, 1-2)' % N, 'dif(D, y%d)' % nv]))
        elif r < 0.68:
            acts.append(rng.choice(['freeze(%s, true)' % N, 'freeze(O, true)', 'freeze(A, true)']))
        elif r < 0.8:
            acts.append('bb_b_put(c11kb, vb%d)' % nv)
        elif r < 0.9:
            last_put = 'w%d_%d_%d' % (shard, i, nv)
            acts.append('bb_put(c11k, %s)' % last_put)
        else:
            acts.append('copy_term(T, _)')
    return acts, last_put


def shard(ctx):
    rec = ctx.rec
    rng = ctx.rng
    w = ctx.worker()
    setup_q = 'use_module(library(lists)), use_module(library(iso_ext)), use_module(library(dif)), use_module(library(freeze)).'
    w.setup([{'op': 'raw', 'query': setup_q}])
    n = ctx.params['n']
    batch = []
    for i in range(n):
        acts, last_put = gen_actions(rng, ctx.shard, i)
        inner = ', '.join(acts)
        k = rng.randrange(len(CONTEXTS) + 1)
        if k == len(CONTEXTS):
            (s1, c1), (s2, c2) = rng.sample(CONTEXTS, 2)
            ctxt = c1 % (c2 % inner + ', ' + inner.replace('N', 'M'))
            st = 'nested'
        else:
            st, c = CONTEXTS[k]
            ctxt = c % inner
        attr = rng.choice(['none', 'dif', 'freeze', 'both'])
        init = {'none': 'true', 'dif': 'dif(D, z)', 'freeze': 'freeze(D, true)', 'both': 'dif(D, z), freeze(D, true)'}[attr]
        body = ('T = t(A, f(O), c, D), %s, bb_put(c11k, v0), bb_b_put(c11kb, v0), copy_term(T, C0, G0), %s, '
                'copy_term(T, C1, G1), bb_get(c11k, K), bb_get(c11kb, KB), R = r(C0-G0, C1-G1, K, KB)') % (init, ctxt)
        batch.append((i, st, attr, body, last_put, acts))
        if len(batch) == 20 or i == n - 1:
            run_batch(ctx, w, batch, setup_q)
            batch = []


def run_batch(ctx, w, batch, setup_q):
    rec = ctx.rec
    prefix = 'c11_%d_' % ctx.shard
    text = ''.join('%s%d(R) :- %s.\n' % (prefix, i, body) for i, st, attr, body, lp, acts in batch)
    loaded = arith.load_clauses(rec, w, text)
    for i, st, attr, body, last_put, acts in batch:
        for mode in ('compiled-clause', 'called-term'):
            if mode == 'compiled-clause':
                if not loaded:
                    continue
                goal = '%s%d(R)' % (prefix, i)
            else:
                goal = body
            o = arith.run_goal(w, goal, var='R', timeout=30)
            key = (body, mode)
            rec.case(st, key)
            rec.case(mode, key + ('m',))
            rec.case('attr-' + attr, key + ('a',))
            if last_put or 'bb_b_put' in body:
                rec.case('global-variables', key + ('g',))
            why = None
            if o[0] != 'val':
                why = 'test_goal_' + o[0]
            else:
                before, after, kv, kb = o[1][2]
                if rename_canonical(before) != rename_canonical(after):
                    why = 'state_not_restored'
                elif kb != mkatom('v0'):
                    why = 'backtrackable_global_not_restored'
                elif kv != mkatom(last_put or 'v0'):
                    why = 'non_backtrackable_global_lost'
            if why is None:
                if len(rec.samples) < 5 and i % 41 == 0:
                    rec.sample({'context': st, 'actions': acts, 'mode': mode})
                continue
            sig = {'kind': why, 'context': st, 'attr': attr, 'mode': mode}
            arith.panic_sig(sig, o)
            jobs = [{'op': 'raw', 'query': setup_q}]
            if mode == 'compiled-clause':
                jobs.append({'op': 'load', 'module': 'user', 'text': '%s%d(R) :- %s.\n' % (prefix, i, body)})
            jobs.append({'op': 'run', 'goal': goal + ' .', 'limit': 2, 'pred': 'runr'})
            rec.violation(sig, {'body': body, 'actions': acts, 'observed': arith.show_obs(o)[:700], 'jobs': jobs})
