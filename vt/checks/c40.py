"""C40 Inference-limited execution is deterministic and faithful.

Oracle: metamorphic + reference.  For goals with known solution sequences the outcome list of
call_with_inference_limit/3 is observed over many limits: it must be reproducible (same machine,
fresh machine), monotone in the limit (answers at a smaller limit are a prefix of those at a
larger one, and the threshold below which the limit is exceeded is sharp), equal to the
unrestricted answers above the threshold, and nesting must neither lose inferences of the inner
goal nor leave state behind."""
from .. import arith
from ..terms import mkint, mkatom, mklist, mkc, NIL, show

ID = 'C40'
LEVEL = 'exploration'
RULE = ('12 goal families (deterministic recursion of chosen depth, naive reverse, member/between enumerations with 1-6 solutions, '
        'failing goals, goals that throw, infinite loops, goals ending in cuts, if-then-else, arithmetic loops; no inner findall/3: known finding K44) with '
        'random sizes; for each: binary search of the sharp threshold T (limit T-1 exceeds, limit T does not), 8-20 limits around and '
        'below T, each limit run twice on the same machine and T-1/T re-run on a fresh machine; nested forms '
        'call_with_inference_limit(call_with_inference_limit(G, Big, _), L, R), an inner limit that is exceeded followed by more '
        'work, inner exception; threshold of a reference goal re-measured after every family. distinct = distinct (goal, limit); '
        'non-trivial = goal with more than one solution or nesting')
PARAMS = {'quick': {'n': 2}, 'thorough': {'n': 120}}
MIN_EVAL = {'quick': 6000, 'thorough': 250000}
STRATA = ['threshold-search', 'below-threshold', 'at-or-above-threshold', 'repeat-same-machine', 'repeat-fresh-machine', 'multi-solution', 'nested-inner-big',
          'nested-inner-exceeded', 'nested-inner-tight', 'exception-inside', 'infinite-loop', 'no-leftover-state']
ASSUMPTIONS = ['R is true or ! for an answer and inference_limit_exceeded as the last item when the limit is hit; true vs ! is not asserted',
               'a nested call may add a constant overhead (at most 200 inferences) to the outer count but must not hide the inner goal\'s inferences']

PROGRAM = r"""
c40_count(0) :- !.
c40_count(N) :- N1 is N - 1, c40_count(N1).
c40_rev([], []).
c40_rev([H|T], R) :- c40_rev(T, RT), append(RT, [H], R).
c40_list(0, []) :- !.
c40_list(N, [N|T]) :- N1 is N - 1, c40_list(N1, T).
c40_nrev(N, R) :- c40_list(N, L), c40_rev(L, R).
c40_loop :- c40_loop.
c40_mem(N, X) :- c40_list(N, L0), c40_rev(L0, L), member(X, L).
c40_memwork(N, K, X) :- c40_list(N, L0), c40_rev(L0, L), member(X, L), c40_count(K).
c40_ite(N, R) :- ( N > 5 -> c40_count(N), R = big ; R = small ).
c40_cutmem(N, X) :- c40_list(N, L0), c40_rev(L0, L), member(X, L), X >= 2, !.
c40_fa(N, S) :- findall(X, between(1, N, X), L), sum_list(L, S).
c40_out(X, G, L, Out) :- findall(X-R, call_with_inference_limit(G, L, R), Out).
"""


def goals(rng):
    """(name, goal text with answer variable X, expected list of X answers (python terms) or None for loops/throws)"""
    n = rng.randint(3, 60)
    k = rng.randint(1, 6)
    return [
        ('count', '( c40_count(%d), X = done )' % n, [mkatom('done')]),
        ('nrev', 'c40_nrev(%d, X)' % rng.randint(2, 25), None),
        ('member', 'c40_mem(%d, X)' % k, [mkint(i) for i in range(1, k + 1)]),
        ('member-work', 'c40_memwork(%d, %d, X)' % (k, rng.randint(1, 20)), [mkint(i) for i in range(1, k + 1)]),
        ('between', 'between(1, %d, X)' % k, [mkint(i) for i in range(1, k + 1)]),
        ('fail', '( c40_count(%d), X = a, fail )' % n, []),
        ('ite', 'c40_ite(%d, X)' % n, [mkatom('big' if n > 5 else 'small')]),
        ('cut', 'c40_cutmem(%d, X)' % (k + 1), [mkint(2)]),
        ('arith', '( X is %d * 3 + 1 )' % n, [mkint(n * 3 + 1)]),
    ]


def out(w, goal, limit):
    return arith.run_goal(w, 'c40_out(X, %s, %d, R)' % (goal, limit), var='R', timeout=60)


def parse(o):
    """-> (answers list, exceeded bool) or None"""
    if o[0] != 'val':
        return None
    items = [] if o[1] == NIL else list(o[1][1])
    ans, exceeded = [], False
    for it in items:
        if it[0] != 'c' or it[1] != '-' or len(it[2]) != 2:
            return None
        x, r = it[2]
        if r == mkatom('inference_limit_exceeded'):
            exceeded = True
        elif r in (mkatom('true'), mkatom('!')):
            if exceeded:
                return None
            ans.append(x)
        else:
            return None
    return ans, exceeded


def shard(ctx):
    rec = ctx.rec
    rng = ctx.rng
    setup = [{'op': 'raw', 'query': 'use_module(library(lists)), use_module(library(between)), use_module(library(iso_ext)).'},
             {'op': 'load', 'module': 'user', 'text': PROGRAM}]
    w = ctx.worker()
    w.setup(setup)
    w2 = ctx.worker()
    w2.setup(setup)

    def viol(kind, goal, extra):
        rec.violation({'kind': kind, 'family': extra.pop('family', '?')}, dict(extra, goal=goal, jobs=setup + [
            {'op': 'run', 'goal': 'c40_out(X, %s, %d, R) .' % (goal, extra.get('limit', 1000)), 'limit': 2, 'pred': 'runr'}]))

    def threshold(goal, fam):
        """smallest limit that is not exceeded; None when even 2*10^6 is exceeded"""
        lo, hi = 0, 1
        while True:
            p = parse(out(w, goal, hi))
            rec.case('threshold-search', (goal, hi))
            if p is None:
                return None
            if not p[1]:
                break
            lo = hi
            hi *= 2
            if hi > 2000000:
                return None
        while hi - lo > 1:
            mid = (lo + hi) // 2
            p = parse(out(w, goal, mid))
            rec.case('threshold-search', (goal, mid))
            if p is None:
                return None
            if p[1]:
                lo = mid
            else:
                hi = mid
        return hi

    if ctx.shard == 0:
        # fixed probe of known finding K44 (goals with an inner findall/3 are not generated at random because of it)
        q = 'findall(X-R0, call_with_inference_limit(( findall(Y, between(1, 1000, Y), _), X = a ), 100, R0), R)'
        o = arith.run_goal(w, q, var='R')
        rec.case('below-threshold', ('k44-probe',))
        p = parse(o)
        if p is None or p[0] or not p[1]:
            rec.violation({'kind': 'interrupted_inner_findall_leaks_into_outer_findall'}, {'goal': q, 'observed': arith.show_obs(o)[:300],
                                                                                           'jobs': setup + [{'op': 'run', 'goal': q + ' .', 'limit': 2, 'pred': 'runr'}]})
    ref_goal = '( c40_count(17), X = done )'
    ref_t = threshold(ref_goal, 'reference')
    for rnd in range(ctx.params['n']):
        for fam, goal, expected in goals(rng):
            t = threshold(goal, fam)
            if t is None:
                viol('no_threshold_found', goal, {'family': fam})
                continue
            full = parse(out(w, goal, t))
            if expected is not None and (full is None or full[0] != expected):
                viol('answers_at_threshold_differ_from_unrestricted', goal, {'family': fam, 'limit': t, 'observed': str(full)[:300]})
                continue
            limits = sorted(set([0, 1, 2, t - 1, t, t + 1, t * 2, 10 ** 7] + [rng.randint(0, t) for _ in range(rng.randint(4, 14))]))
            prev = None
            for L in limits:
                if L < 0:
                    continue
                o1 = out(w, goal, L)
                o2 = out(w, goal, L)
                p = parse(o1)
                st = 'below-threshold' if L < t else 'at-or-above-threshold'
                rec.case(st, (goal, L), nontrivial=expected is None or len(expected) != 1)
                rec.case('repeat-same-machine', (goal, L, 'r'))
                if expected is not None and len(expected) > 1:
                    rec.case('multi-solution', (goal, L, 'm'))
                if p is None:
                    viol('malformed_outcome', goal, {'family': fam, 'limit': L, 'observed': arith.show_obs(o1)[:300]})
                    break
                if o1 != o2:
                    viol('outcome_not_reproducible', goal, {'family': fam, 'limit': L, 'observed': arith.show_obs(o1)[:200] + ' / ' + arith.show_obs(o2)[:200]})
                    break
                if (L < t) != p[1]:
                    viol('threshold_not_sharp', goal, {'family': fam, 'limit': L, 'threshold': t, 'observed': arith.show_obs(o1)[:300]})
                    break
                if full is not None and p[0] != full[0][:len(p[0])]:
                    viol('answers_not_a_prefix', goal, {'family': fam, 'limit': L, 'observed': arith.show_obs(o1)[:300]})
                    break
                if prev is not None and len(p[0]) < len(prev):
                    viol('fewer_answers_at_larger_limit', goal, {'family': fam, 'limit': L, 'observed': arith.show_obs(o1)[:300]})
                    break
                if L >= t and full is not None and p[0] != full[0]:
                    viol('answers_above_threshold_differ', goal, {'family': fam, 'limit': L, 'observed': arith.show_obs(o1)[:300]})
                    break
                prev = p[0]
            # fresh machine: same threshold
            for L in (t - 1, t):
                if L < 0:
                    continue
                p2 = parse(out(w2, goal, L))
                rec.case('repeat-fresh-machine', (goal, L, 'f'))
                if p2 is None or p2[1] != (L < t):
                    viol('threshold_differs_on_other_machine', goal, {'family': fam, 'limit': L, 'threshold': t, 'observed': str(p2)[:200]})
            # nesting: the inner goal's inferences count for the outer limit
            nested = 'call_with_inference_limit(%s, 100000000, _)' % goal
            tn = threshold(nested, fam)
            rec.case('nested-inner-big', (goal, 'n'))
            if tn is None or tn < t or tn > t + 200 + 20 * (len(full[0]) if full else 1):
                viol('nested_limit_disturbs_outer_count', nested, {'family': fam, 'threshold_plain': t, 'threshold_nested': tn})
            if t > 150:
                small = rng.randint(1, t // 4)      # well below the goal's own need (t includes the wrapper's overhead)
                g3 = '( call_with_inference_limit(%s, %d, R1), R1 == inference_limit_exceeded, c40_count(30), X = after )' % (goal.replace('X', 'Y'), small)
                p3 = parse(out(w, g3, 10 ** 7))
                rec.case('nested-inner-exceeded', (goal, small))
                if p3 is None or p3[1] or p3[0] != [mkatom('after')]:
                    viol('work_after_exceeded_inner_limit_wrong', g3, {'family': fam, 'limit': 10 ** 7, 'observed': str(p3)[:300]})
                t3 = threshold(g3, fam)
                if t3 is None or t3 < small:
                    viol('inner_inferences_not_counted_in_outer', g3, {'family': fam, 'threshold_nested': t3, 'inner_limit': small})
            # the outer threshold must not depend on the value of a sufficient inner limit
            if fam in ('count', 'member', 'between', 'arith'):
                kk, cc, mm = rng.randint(20, 60), rng.randint(5, 80), rng.randint(100, 400)
                tin = threshold('( c40_count(%d), X = done )' % kk, fam)
                if tin is not None:
                    shape = '( c40_count(%d), call_with_inference_limit(c40_count(%d), %%d, _), c40_count(%d), X = done )' % (cc, kk, mm)
                    t_big = threshold(shape % 100000000, fam)
                    t_small = threshold(shape % (tin + rng.randint(0, 3)), fam)
                    rec.case('nested-inner-tight', (shape, tin))
                    if t_big is None or t_small is None or t_big != t_small:
                        viol('outer_threshold_depends_on_sufficient_inner_limit', shape % tin, {'family': fam, 'threshold_inner_big': t_big, 'threshold_inner_tight': t_small, 'inner_limit': tin})
            # exception inside, infinite loop
            o = arith.run_goal(w, 'catch(call_with_inference_limit(( c40_count(%d), throw(c40_ball) ), 100000, R0), B, R0 = caught(B)), R = R0' % rng.randint(0, 30), var='R')
            rec.case('exception-inside', (goal, 'e'))
            if o != ('val', mkc('caught', mkatom('c40_ball'))):
                viol('exception_not_propagated', 'throw inside', {'family': fam, 'observed': arith.show_obs(o)[:200]})
            Lloop = rng.choice([0, 1, 10, 1000, 100000])
            p = parse(out(w, '( c40_loop, X = never )', Lloop))
            rec.case('infinite-loop', (Lloop,))
            if p is None or not p[1] or p[0]:
                viol('loop_not_stopped_by_limit', 'c40_loop', {'family': fam, 'limit': Lloop, 'observed': str(p)[:200]})
            # no leftover state: the reference goal still has its threshold
            for L in (ref_t - 1, ref_t):
                p = parse(out(w, ref_goal, L))
                rec.case('no-leftover-state', (fam, rnd, L))
                if p is None or p[1] != (L < ref_t):
                    viol('threshold_of_reference_goal_changed', ref_goal, {'family': fam, 'limit': L, 'threshold': ref_t, 'observed': str(p)[:200]})
        if len(rec.samples) < 4:
            rec.sample({'reference_goal_threshold': ref_t, 'last_family_threshold': t})
