"""C53 Graph library results match graph-theoretic definitions.

Oracle: reference model (Python sets/dicts) for library(ugraphs) on finite digraphs in
S-representation; top_sort/2 is accepted with any valid topological order."""
import itertools

from .. import simple, arith
from ..terms import mkint, mkatom, mklist, mkc, NIL, show, to_text
from ..refterm import std_sort

ID = 'C53'
LEVEL = 'exploration'
RULE = ('all digraphs with <= 3 vertices (incl. self loops; 2^9 + 2^4 + 2 + 1 graphs, enumerated across the shards) and random '
        'digraphs with 4-8 vertices over integer and mixed-type vertex names; operations vertices_edges_to_ugraph/3, vertices/2, '
        'edges/2, add_vertices/3, del_vertices/3, add_edges/3, del_edges/3, neighbours/3, transpose_ugraph/2, compose/3, '
        'ugraph_union/3, transitive_closure/2, reachable/3, complement/2, top_sort/2, and chains of 2-4 operations. '
        'distinct = distinct goals; non-trivial = graph has >= 1 edge')
PARAMS = {'quick': {'n': 500}, 'thorough': {'n': 30000}}
MIN_EVAL = {'quick': 12000, 'thorough': 500000}
STRATA = ['construct', 'vertices-edges', 'add-del-vertices', 'add-del-edges', 'neighbours', 'transpose', 'compose', 'union', 'closure',
          'reachable', 'complement', 'top_sort', 'chain']
ASSUMPTIONS = ['definitions taken from the library\'s documentation: closure = paths of length >= 1, reachable includes the start '
               'vertex, complement has no self loops', 'graphs are proper S-representations (every vertex is a key)']

NAMES = [mkint(1), mkint(2), mkint(3), mkint(4), mkint(5), mkint(6), mkint(7), mkint(8)]
# multi-character atom names: lists that start with one-character atoms hit the sort/2 finding K4 (see C14)
MIXED = [mkint(1), mkatom('aa'), mkint(2), mkatom('bb'), mkc('f', mkint(1)), mkint(2 ** 64), mkatom('zz'), mkint(-3)]


def srep(vs, adj):
    order = std_sort(list(vs))
    return mklist([mkc('-', v, mklist(std_sort(list(adj.get(v, ()))))) for v in order])


def closure(vs, adj):
    reach = {v: set(adj.get(v, ())) for v in vs}
    changed = True
    while changed:
        changed = False
        for v in vs:
            new = set(reach[v])
            for u in list(reach[v]):
                new |= reach.get(u, set())
            if new != reach[v]:
                reach[v] = new
                changed = True
    return reach


def rgraph(rng, names, nv):
    vs = rng.sample(names, nv)
    adj = {v: set() for v in vs}
    p = rng.choice([0.1, 0.25, 0.5])
    for a in vs:
        for b in vs:
            if rng.random() < p:
                adj[a].add(b)
    return set(vs), adj


def small_graphs():
    for nv in (0, 1, 2, 3):
        vs = NAMES[:nv]
        pairs = [(a, b) for a in vs for b in vs]
        for mask in range(1 << len(pairs)):
            adj = {v: set() for v in vs}
            for k, (a, b) in enumerate(pairs):
                if mask >> k & 1:
                    adj[a].add(b)
            yield set(vs), adj


def ops_on(rng, vs, adj, names):
    """yields (stratum, goal with G bound, expectation)"""
    G = to_text(srep(vs, adj))
    L = lambda items: to_text(mklist(items))
    edges = [(a, b) for a in std_sort(list(vs)) for b in std_sort(list(adj[a]))]
    yield 'vertices-edges', 'vertices(%s, R)' % G, ('val', mklist(std_sort(list(vs))))
    yield 'vertices-edges', 'edges(%s, R)' % G, ('val', mklist([mkc('-', a, b) for a, b in edges]))
    ev = list(vs)
    extra = [n for n in names if n not in vs]
    rng.shuffle(ev)
    es = [mkc('-', a, b) for a, b in edges]
    rng.shuffle(es)
    verts_in = ev + ([extra[0]] if extra and rng.random() < 0.5 else [])
    yield 'construct', 'vertices_edges_to_ugraph(%s, %s, R)' % (L(verts_in), L(es)), ('val', srep(set(verts_in), {**adj, **{x: set() for x in verts_in if x not in adj}}))
    add = rng.sample(names, rng.randint(0, 3))
    yield 'add-del-vertices', 'add_vertices(%s, %s, R)' % (G, L(add)), ('val', srep(vs | set(add), {**{x: set() for x in add}, **adj}))
    dv = rng.sample(names, rng.randint(0, 3))
    vs2 = vs - set(dv)
    yield 'add-del-vertices', 'del_vertices(%s, %s, R)' % (G, L(dv)), ('val', srep(vs2, {v: adj[v] - set(dv) for v in vs2}))
    ae = [(rng.choice(names), rng.choice(names)) for _ in range(rng.randint(0, 4))]
    vs3 = vs | {a for a, _ in ae} | {b for _, b in ae}
    adj3 = {v: set(adj.get(v, ())) for v in vs3}
    for a, b in ae:
        adj3[a].add(b)
    yield 'add-del-edges', 'add_edges(%s, %s, R)' % (G, L([mkc('-', a, b) for a, b in ae])), ('val', srep(vs3, adj3))
    de = [(rng.choice(names), rng.choice(names)) for _ in range(rng.randint(0, 3))] + ([rng.choice(edges)] if edges else [])
    adj4 = {v: set(adj[v]) for v in vs}
    for a, b in de:
        if a in adj4:
            adj4[a].discard(b)
    yield 'add-del-edges', 'del_edges(%s, %s, R)' % (G, L([mkc('-', a, b) for a, b in de])), ('val', srep(vs, adj4))
    if vs:
        v = rng.choice(list(vs))
        yield 'neighbours', 'neighbours(%s, %s, R)' % (to_text(v), G), ('val', mklist(std_sort(list(adj[v]))))
        reach = closure(vs, adj)
        yield 'reachable', 'reachable(%s, %s, R)' % (to_text(v), G), ('val', mklist(std_sort(list(reach[v] | {v}))))
    tr = {v: set() for v in vs}
    for a, b in edges:
        tr[b].add(a)
    yield 'transpose', 'transpose_ugraph(%s, R)' % G, ('val', srep(vs, tr))
    yield 'closure', 'transitive_closure(%s, R)' % G, ('val', srep(vs, closure(vs, adj)))
    comp = {v: {u for u in vs if u != v and u not in adj[v]} for v in vs}
    yield 'complement', 'complement(%s, R)' % G, ('val', srep(vs, comp))
    yield 'top_sort', '( top_sort(%s, S) -> R = sorted(S) ; R = cyclic )' % G, ('check', lambda o, vs=vs, adj=adj: top_check(o, vs, adj))
    # binary operations with a second graph over the same names
    vs_b, adj_b = rgraph(rng, names, rng.randint(0, min(5, len(names))))
    Gb = to_text(srep(vs_b, adj_b))
    un = {v: set(adj.get(v, ())) | set(adj_b.get(v, ())) for v in vs | vs_b}
    yield 'union', 'ugraph_union(%s, %s, R)' % (G, Gb), ('val', srep(vs | vs_b, un))
    co = {v: set() for v in vs | vs_b}
    for a in vs:
        for b in adj[a]:
            for c in adj_b.get(b, ()):
                co[a].add(c)
    yield 'compose', 'compose(%s, %s, R)' % (G, Gb), ('val', srep(vs | vs_b, co))
    # a chain: add edges, transpose, closure
    adj5 = {v: set(adj3[v]) for v in vs3}
    tr5 = {v: set() for v in vs3}
    for a in vs3:
        for b in adj5[a]:
            tr5[b].add(a)
    yield 'chain', 'add_edges(%s, %s, G1), transpose_ugraph(G1, G2), transitive_closure(G2, R)' % (G, L([mkc('-', a, b) for a, b in ae])), ('val', srep(vs3, closure(vs3, tr5)))


def top_check(o, vs, adj):
    if o[0] != 'val':
        return o[0]
    cyc = any(v in closure(vs, adj)[v] for v in vs)
    t = o[1]
    if t == ('a', 'cyclic'):
        return None if cyc else 'top_sort_failed_on_acyclic_graph'
    if cyc:
        return 'top_sort_succeeded_on_cyclic_graph'
    if t[0] != 'c' or t[1] != 'sorted':
        return 'garbled'
    s = t[2][0]
    order = [] if s == NIL else list(s[1])
    if sorted(map(repr, order)) != sorted(map(repr, vs)):
        return 'top_sort_not_a_permutation_of_vertices'
    pos = {v: i for i, v in enumerate(order)}
    for a in vs:
        for b in adj[a]:
            if pos[a] >= pos[b]:
                return 'top_sort_order_violates_an_edge'
    return None


def gen_cases(ctx):
    rng = ctx.rng
    for k, (vs, adj) in enumerate(small_graphs()):
        if k % ctx.nshards == ctx.shard:
            yield from ops_on(rng, vs, adj, NAMES[:4])
    for _ in range(ctx.params['n']):
        names = NAMES if rng.random() < 0.6 else MIXED
        vs, adj = rgraph(rng, names, rng.randint(2, 8))
        yield from ops_on(rng, vs, adj, names)


def shard(ctx):
    w = ctx.worker()
    w.use_modules(['lists', 'ugraphs'])
    simple.run_cases(ctx, w, gen_cases(ctx), setup_query='use_module(library(lists)), use_module(library(ugraphs)).',
                     pred_of=lambda g: g.split('(')[0].strip('( '))
