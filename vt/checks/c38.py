"""C38 Delimited control and tabling compute the specified answers.

Oracle: reference models.  (a) Tabling: random edge relations with left / right / double recursive
transitive closure and random range-restricted Datalog programs over two mutually recursive tabled
predicates; the least fixpoint is computed by naive iteration in the check; answer sets (all-free
and partly bound calls) must be equal and free of duplicates; on acyclic graphs the untabled
right-recursive program must give the same set.  (b) reset/3 and shift/1: random effect programs
(state get/put, yield, arithmetic on locals, calls of sub-predicates that shift themselves,
conditionals, inner resets that collect the yields of a block) run under a handler written with
reset/3; a direct interpreter in the check predicts the final state, the yielded list and the
output value computed after the last shift."""
import itertools

from .. import arith
from ..terms import mkint, mkatom, mklist, mkc, NIL, show

ID = 'C38'
LEVEL = 'exploration'
RULE = ('tabling: graphs of 2-6 nodes with random edges (cycles, self loops), transitive closure written left / right / double recursive with '
        'either clause order, calls with no / first / second / both arguments bound; random Datalog programs of 2-5 rules over tabled '
        'p/2, q/2 and facts e/2 (1-3 body atoms, range restricted); untabled right recursion on acyclic graphs. reset/shift: programs '
        'of 2-9 statements over get / put / yield / is / sub-predicate calls (2 levels, each shifting itself) / if-then-else / inner '
        'reset blocks; handler threads the state and collects yields; reset/3 of a goal that does not shift gives Cont == none. '
        'distinct = distinct (program, query); non-trivial = recursive answers beyond the facts resp. programs with >= 2 shifts')
PARAMS = {'quick': {'n': 60}, 'thorough': {'n': 4000}}
MIN_EVAL = {'quick': 7000, 'thorough': 450000}
STRATA = ['left-recursive', 'right-recursive', 'double-recursive', 'datalog-mutual', 'untabled-same-set', 'cyclic-graph', 'bound-argument',
          'state', 'yield', 'sub-predicate-shift', 'conditional', 'inner-reset', 'no-shift', 'output-after-shift']
ASSUMPTIONS = ['a tabled call returns every answer of the least fixpoint exactly once (tables hold sets)',
               'variables of the goal given to reset/3 are shared with the continuation: bindings made after the last shift are visible to the caller']

HANDLER = r"""
c38_run(G, S0, S, Ys) :- reset(G, Cmd, Cont), c38_h(Cont, Cmd, S0, S, Ys).
c38_h(Cont, Cmd, S0, S, Ys) :- ( Cont == none -> S = S0, Ys = [] ; Cont = cont(C), c38_h2(Cmd, C, S0, S, Ys) ).
c38_h2(yield(X), C, S0, S, [X|Ys]) :- c38_run(C, S0, S, Ys).
c38_h2(get(S0), C, S0, S, Ys) :- c38_run(C, S0, S, Ys).
c38_h2(put(S1), C, _, S, Ys) :- c38_run(C, S1, S, Ys).
c38_collect(G, Ys) :- reset(G, Cmd, Cont), ( Cont == none -> Ys = [] ; Cont = cont(C), Cmd = yield(X), Ys = [X|Ys1], c38_collect(C, Ys1) ).
c38_sum([], 0).
c38_sum([X|Xs], S) :- c38_sum(Xs, S0), S is S0 + X.
"""


# ---------------------------------------------------------------- tabling
def lfp(rules, facts):
    """rules: list of (head (pred, (a, b)), body [(pred, (a, b))]); terms are variable names (str) or constants ('k', c)"""
    db = {'e': set(facts), 'p': set(), 'q': set()}
    changed = True
    while changed:
        changed = False
        for (hp, hargs), body in rules:
            envs = [{}]
            for bp, bargs in body:
                nxt = []
                for env in envs:
                    for tup in db[bp]:
                        e2 = dict(env)
                        ok = True
                        for a, v in zip(bargs, tup):
                            if isinstance(a, tuple):
                                if a[1] != v:
                                    ok = False
                                    break
                            elif a in e2:
                                if e2[a] != v:
                                    ok = False
                                    break
                            else:
                                e2[a] = v
                        if ok:
                            nxt.append(e2)
                envs = nxt
            for env in envs:
                t = tuple(a[1] if isinstance(a, tuple) else env[a] for a in hargs)
                if t not in db[hp]:
                    db[hp].add(t)
                    changed = True
    return db


def atom_text(prefix, a):
    p, args = a
    return '%s%s(%s)' % (prefix, p, ', '.join(x[1] if isinstance(x, tuple) else x for x in args))


def gen_tabling(rng, prefix):
    nodes = ['n%d' % k for k in range(rng.randint(2, 6))]
    facts = set()
    for _ in range(rng.randint(1, 2 * len(nodes))):
        facts.add((rng.choice(nodes), rng.choice(nodes)))
    facts = sorted(facts)
    kind = rng.choice(['left-recursive', 'right-recursive', 'double-recursive', 'datalog-mutual', 'datalog-mutual'])
    base = (('p', ('X', 'Y')), [('e', ('X', 'Y'))])
    if kind == 'left-recursive':
        rules = [(('p', ('X', 'Y')), [('p', ('X', 'Z')), ('e', ('Z', 'Y'))]), base]
    elif kind == 'right-recursive':
        rules = [(('p', ('X', 'Y')), [('e', ('X', 'Z')), ('p', ('Z', 'Y'))]), base]
    elif kind == 'double-recursive':
        rules = [(('p', ('X', 'Y')), [('p', ('X', 'Z')), ('p', ('Z', 'Y'))]), base]
    else:
        rules = []
        for _ in range(rng.randint(2, 5)):
            body = []
            for _ in range(rng.randint(1, 3)):
                body.append((rng.choice(['e', 'e', 'p', 'q']), (rng.choice('XYZ'), rng.choice('XYZ'))))
            bvars = sorted({v for _, args in body for v in args})
            hargs = tuple(rng.choice(bvars) if rng.random() < 0.9 else ('k', rng.choice(nodes)) for _ in range(2))
            rules.append(((rng.choice('pq'), hargs), body))
        if not any(h[0] == 'p' for h, _ in rules):
            rules.append(base)
        if not any(h[0] == 'q' for h, _ in rules):
            rules.append((('q', ('X', 'Y')), [('e', ('Y', 'X'))]))
    if kind != 'datalog-mutual' and rng.random() < 0.5:
        rules.reverse()
    lines = [':- table %sp/2.' % prefix, ':- table %sq/2.' % prefix]
    for f in facts:
        lines.append('%se(%s, %s).' % (prefix, f[0], f[1]))
    # group clauses by predicate (no discontiguous clauses)
    for pred in 'pq':
        for h, body in rules:
            if h[0] == pred:
                lines.append('%s :- %s.' % (atom_text(prefix, h), ', '.join(atom_text(prefix, b) for b in body)))
    if not any(h[0] == 'q' for h, _ in rules):
        lines.append('%sq(X, Y) :- %se(Y, X).' % (prefix, prefix))
        rules = rules + [(('q', ('X', 'Y')), [('e', ('Y', 'X'))])]
    # acyclic?
    reach = lfp([(('p', ('X', 'Y')), [('e', ('X', 'Z')), ('p', ('Z', 'Y'))]), base], facts)['p']
    cyclic = any(a == b for a, b in reach)
    if not cyclic:
        lines.append('%su(X, Y) :- %se(X, Y).' % (prefix, prefix))
        lines.append('%su(X, Y) :- %se(X, Z), %su(Z, Y).' % (prefix, prefix, prefix))
    return kind, nodes, facts, rules, '\n'.join(lines) + '\n', cyclic, reach


# ---------------------------------------------------------------- reset / shift
class Prog:
    def __init__(self, rng, prefix):
        self.rng = rng
        self.prefix = prefix
        self.preds = {}        # name -> (text lines)
        self.model = {}        # name -> statements
        self.feats = set()
        self.shifts = 0
        self.counter = 0

    def expr(self, vs):
        rng = self.rng
        a = rng.choice(vs)
        r = rng.random()
        if r < 0.3:
            return ('v', a)
        if r < 0.6:
            return ('+', a, rng.randint(1, 5))
        if r < 0.8:
            return ('*', a, rng.randint(2, 3))
        return ('-', a, rng.choice(vs))

    def etext(self, e):
        if e[0] == 'v':
            return e[1]
        if e[0] == '-':
            return '%s - %s' % (e[1], e[2])
        return '%s %s %d' % (e[1], e[0], e[2])

    def block(self, vs, level, n, inner=False):
        """-> (list of goal texts, statements, defined vars)"""
        rng = self.rng
        vs = list(vs)
        goals, stmts = [], []
        for _ in range(n):
            r = rng.random()
            self.counter += 1
            nv = 'V%d' % self.counter
            if r < 0.2:
                e = self.expr(vs)
                goals.append('%s is %s, shift(yield(%s))' % (nv, self.etext(e), nv))
                stmts.append(('yield', e))
                self.feats.add('yield')
                self.shifts += 1
            elif r < 0.35 and not inner:
                goals.append('shift(get(%s))' % nv)
                stmts.append(('get', nv))
                vs.append(nv)
                self.feats.add('state')
                self.shifts += 1
            elif r < 0.5 and not inner:
                e = self.expr(vs)
                goals.append('%s is %s, shift(put(%s))' % (nv, self.etext(e), nv))
                stmts.append(('put', e))
                self.feats.add('state')
                self.shifts += 1
            elif r < 0.65:
                e = self.expr(vs)
                goals.append('%s is %s' % (nv, self.etext(e)))
                stmts.append(('is', nv, e))
                vs.append(nv)
            elif r < 0.8 and level > 0 and not inner:
                name = self.sub(level - 1)
                a = rng.choice(vs)
                goals.append('%s(%s, %s)' % (name, a, nv))
                stmts.append(('call', name, a, nv))
                vs.append(nv)
                self.feats.add('sub-predicate-shift')
            elif r < 0.9:
                a = rng.choice(vs)
                c = rng.randint(-5, 20)
                g1, s1, _ = self.block(vs, 0, rng.randint(1, 2), inner)
                g2, s2, _ = self.block(vs, 0, rng.randint(1, 2), inner)
                goals.append('( %s > %d -> %s ; %s )' % (a, c, ', '.join(g1), ', '.join(g2)))
                stmts.append(('ite', a, c, s1, s2))
                self.feats.add('conditional')
            elif not inner:
                # inner reset: the yields of the block go to the inner handler
                self.counter += 1
                name = '%sin%d' % (self.prefix, self.counter)
                a = rng.choice(vs)
                g, s, dv = self.block(['In'], 0, rng.randint(1, 3), inner=True)
                out = self.expr(dv)
                self.preds[name] = '%s(In, Out) :- %s, Out is %s.' % (name, ', '.join(g), self.etext(out))
                self.model[name] = (s, out)
                ys = 'Ys%d' % self.counter
                ov = 'O%d' % self.counter
                goals.append('c38_collect(%s(%s, %s), %s), c38_sum(%s, %s)' % (name, a, ov, ys, ys, nv))
                stmts.append(('inner', name, a, ov, nv))
                vs += [nv, ov]
                self.feats.add('inner-reset')
            else:
                e = self.expr(vs)
                goals.append('%s is %s' % (nv, self.etext(e)))
                stmts.append(('is', nv, e))
                vs.append(nv)
        return goals, stmts, vs

    def sub(self, level):
        self.counter += 1
        name = '%ssub%d' % (self.prefix, self.counter)
        g, s, dv = self.block(['In'], level, self.rng.randint(1, 4))
        out = self.expr(dv)
        self.preds[name] = '%s(In, Out) :- %s, Out is %s.' % (name, ', '.join(g), self.etext(out))
        self.model[name] = (s, out)
        return name


class Interp:
    def __init__(self, model, state):
        self.model = model
        self.state = state
        self.ys = []

    def ev(self, e, env):
        if e[0] == 'v':
            return env[e[1]]
        if e[0] == '-':
            return env[e[1]] - env[e[2]]
        if e[0] == '+':
            return env[e[1]] + e[2]
        return env[e[1]] * e[2]

    def run(self, stmts, env, sink=None):
        sink = self.ys if sink is None else sink
        for s in stmts:
            k = s[0]
            if k == 'yield':
                sink.append(self.ev(s[1], env))
            elif k == 'get':
                env[s[1]] = self.state
            elif k == 'put':
                self.state = self.ev(s[1], env)
            elif k == 'is':
                env[s[1]] = self.ev(s[2], env)
            elif k == 'call':
                env[s[3]] = self.call(s[1], env[s[2]], sink)
            elif k == 'ite':
                self.run(s[3] if env[s[1]] > s[2] else s[4], env, sink)
            elif k == 'inner':
                inner = []
                env[s[3]] = self.call(s[1], env[s[2]], inner)
                env[s[4]] = sum(inner)

    def call(self, name, arg, sink):
        stmts, out = self.model[name]
        env = {'In': arg}
        self.run(stmts, env, sink)
        return self.ev(out, env)


def shard(ctx):
    rec = ctx.rec
    rng = ctx.rng
    w = ctx.worker()
    setup_q = 'use_module(library(lists)), use_module(library(tabling)), use_module(library(cont)).'
    setup = [{'op': 'raw', 'query': setup_q}, {'op': 'load', 'module': 'user', 'text': HANDLER}]
    w.setup(setup)
    for i in range(ctx.params['n']):
        prefix = 'c38_%d_%d_' % (ctx.shard, i)
        # ------------- tabling
        kind, nodes, facts, rules, text, cyclic, reach = gen_tabling(rng, prefix)
        if arith.load_clauses(rec, w, text):
            db = lfp(rules, facts)
            queries = []
            for pred in ('p', 'q'):
                queries.append((pred, None, None))
                for _ in range(3):
                    queries.append((pred, rng.choice(nodes + [None]), rng.choice(nodes + [None])))
            if not cyclic:
                queries.append(('u', None, None))
                queries.append(('u', rng.choice(nodes), None))
            for pred, a, b in queries:
                goal = 'findall(X-Y, ( X-Y = %s-%s, %s%s(X, Y) ), R)' % (a or '_', b or '_', prefix, pred)
                o = arith.run_goal(w, goal, var='R', timeout=60)
                rel = db['p'] if pred == 'u' else db[pred]
                if pred == 'u':
                    rel = reach
                want = sorted(show(mkc('-', mkatom(t[0]), mkatom(t[1]))) for t in rel if (a is None or t[0] == a) and (b is None or t[1] == b))
                st = 'untabled-same-set' if pred == 'u' else kind
                key = (text, pred, a, b)
                rec.case(st, key, nontrivial=len(rel) > len(facts))
                if cyclic:
                    rec.case('cyclic-graph', key + ('c',))
                if a or b:
                    rec.case('bound-argument', key + ('b',))
                if o[0] == 'timeout':
                    rec.violation({'kind': 'tabled_call_does_not_terminate_within_60s', 'program': kind, 'cyclic': cyclic},
                                  {'program': text, 'goal': goal, 'jobs': setup + [{'op': 'load', 'module': 'user', 'text': text}, {'op': 'run', 'goal': goal + ' .', 'limit': 2, 'pred': 'runr'}]})
                    w = ctx.worker()
                    w.setup(setup)
                    break
                got = [show(x) for x in (o[1][1] if o[0] == 'val' and o[1] != NIL and o[1][0] == 'l' else [])]
                if o[0] == 'val' and ((sorted(got) == want) if pred != 'u' else (sorted(set(got)) == want)):
                    rec.info['tabled_answers_compared'] += len(want)
                    continue
                why = o[0]
                if o[0] == 'val':
                    why = 'answer_missing' if set(want) - set(got) else 'wrong_answer' if set(got) - set(want) else 'answer_repeated'
                sig = {'kind': why, 'program': st, 'cyclic': cyclic}
                arith.panic_sig(sig, o)
                rec.violation(sig, {'program': text, 'goal': goal, 'expected': want, 'observed': arith.show_obs(o)[:500],
                                    'jobs': setup + [{'op': 'load', 'module': 'user', 'text': text}, {'op': 'run', 'goal': goal + ' .', 'limit': 2, 'pred': 'runr'}]})
        # ------------- reset / shift
        for j in range(3):
            pr = Prog(rng, prefix + 'e%d_' % j)
            g, s, dv = pr.block(['In'], 2, rng.randint(2, 9))
            out = pr.expr(dv)
            main = pr.prefix + 'main'
            ptext = '\n'.join(list(pr.preds.values()) + ['%s(In, Out) :- %s, Out is %s.' % (main, ', '.join(g), pr.etext(out))]) + '\n'
            if not arith.load_clauses(rec, w, ptext):
                continue
            s0, inp = rng.randint(-3, 9), rng.randint(-3, 9)
            it = Interp(dict(pr.model), s0)
            env = {'In': inp}
            it.run(s, env)
            outv = it.ev(out, env)
            want = mkc('r', mkint(it.state), mklist([mkint(y) for y in it.ys]), mkint(outv))
            goal = 'c38_run(%s(%d, Out), %d, S, Ys), R = r(S, Ys, Out)' % (main, inp, s0)
            o = arith.run_goal(w, goal, var='R', timeout=30)
            key = (ptext, s0, inp)
            rec.case('output-after-shift', key, nontrivial=pr.shifts >= 2)
            for f in pr.feats:
                rec.case(f, key + (f,))
            if not pr.shifts:
                rec.case('no-shift', key + ('n',))
            if o[0] == 'val' and o[1] == want:
                rec.info['shifts_in_compared_programs'] += pr.shifts
                if len(rec.samples) < 4 and i % 23 == 0 and j == 0:
                    rec.sample({'effect_program': ptext[:500], 'result': show(want)})
                continue
            sig = {'kind': 'result_differs_from_interpreter' if o[0] == 'val' else o[0], 'features': '+'.join(sorted(pr.feats))}
            arith.panic_sig(sig, o)
            rec.violation(sig, {'program': ptext, 'goal': goal, 'expected': show(want), 'observed': arith.show_obs(o)[:400],
                                'jobs': setup + [{'op': 'load', 'module': 'user', 'text': ptext}, {'op': 'run', 'goal': goal + ' .', 'limit': 2, 'pred': 'runr'}]})
        # reset of a goal that does not shift
        o = arith.run_goal(w, 'findall(r(X, Cont), reset(( X = 1 ; X = 2 ), _, Cont), R)', var='R', timeout=30)
        rec.case('no-shift', (prefix, 'plain'))
        want = mklist([mkc('r', mkint(1), mkatom('none')), mkc('r', mkint(2), mkatom('none'))])
        if not (o[0] == 'val' and o[1] == want):
            sig = {'kind': 'reset_without_shift_wrong' if o[0] == 'val' else o[0]}
            arith.panic_sig(sig, o)
            rec.violation(sig, {'goal': 'findall(r(X, Cont), reset(( X = 1 ; X = 2 ), _, Cont), R)', 'expected': show(want), 'observed': arith.show_obs(o)[:300], 'jobs': setup})
