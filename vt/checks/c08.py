"""C08 Static, dynamic and meta-called code give the same answers.

Oracle: differential.  One random program (vt/progen.py) is installed five ways under different
predicate-name prefixes: consulted as static code, consulted in interleaved (discontiguous) pieces,
declared dynamic and added clause by clause with assertz/1, interpreted by a clause/2
meta-interpreter over the dynamic copy (cut-free programs), and reached through call/N wrappers.
Every query must give the same answer sequence in all of them."""
from .. import arith, progen, miniprolog as mp
from ..terms import mkint, mkatom, mklist, mkc, NIL, show, to_text, rename_canonical
from . import c07

ID = 'C08'
LEVEL = 'exploration'
RULE = ('programs from the C07 generator (layered predicates with facts, rules, ==, \\==, @<, =, disjunction, if-then-else, negation, '
        'cuts; 40% generated cut-free so that the meta-interpreter applies) plus the recursive list library; loading modes: static, '
        'discontiguous with clauses of different predicates interleaved, dynamic + assertz/1 in order, clause/2 meta-interpreter; '
        'calling modes for every query: direct, call/1 on the goal term, call/N with the predicate name and all arguments, call/N '
        'with a partial goal, wrapper clauses whose body is the direct call, a call/1 of a constructed goal, call/N, and findall+member. '
        'distinct = distinct (program, query, mode); non-trivial = query with at least 2 answers')
PARAMS = {'quick': {'n': 40}, 'thorough': {'n': 4000}}
MIN_EVAL = {'quick': 15000, 'thorough': 1000000}
STRATA = ['discontiguous', 'dynamic-assertz', 'meta-interpreter', 'call-1', 'call-N', 'call-partial', 'wrapper-direct', 'wrapper-call-1', 'wrapper-call-N',
          'wrapper-findall', 'with-cut', 'list-library']
ASSUMPTIONS = ['cut inside call/N is local to the called goal: queries and wrappers place no cut outside predicate definitions',
               'the meta-interpreter is applied to cut-free programs only']

META = r"""
c08_solve(true, _) :- !.
c08_solve((A, B), P) :- !, c08_solve(A, P), c08_solve(B, P).
c08_solve((C -> T ; E), P) :- !, ( c08_solve(C, P) -> c08_solve(T, P) ; c08_solve(E, P) ).
c08_solve((A ; B), P) :- !, ( c08_solve(A, P) ; c08_solve(B, P) ).
c08_solve(\+ G, P) :- !, \+ c08_solve(G, P).
c08_solve(G, P) :- functor(G, N, _), sub_atom(N, 0, _, _, P), !, clause(G, B), c08_solve(B, P).
c08_solve(G, _) :- call(G).
"""


def clause_lines(prog, prefix):
    name_of = lambda n: prefix + n
    out = []
    for (n, a), clauses in prog.items():
        out.append(((n, a), [mp.clause_text(n, h, b, name_of, to_text) for h, b in clauses]))
    return out


def wrappers(sigs_all, prefix):
    lines = []
    for n, a in sigs_all:
        vs = ', '.join('V%d' % k for k in range(a))
        p = prefix + n
        lines.append('%sw1_%s(%s) :- %s(%s).' % (prefix, n, vs, p, vs))
        lines.append('%sw2_%s(%s) :- G = %s(%s), call(G).' % (prefix, n, vs, p, vs))
        lines.append('%sw3_%s(%s) :- call(%s, %s).' % (prefix, n, vs, p, vs))
        lines.append('%sw4_%s(%s) :- findall(t(%s), %s(%s), L), member(t(%s), L).' % (prefix, n, vs, vs, p, vs, vs))
    return '\n'.join(lines) + '\n'


def shard(ctx):
    rec = ctx.rec
    rng = ctx.rng
    w = ctx.worker()
    setup_q = 'use_module(library(lists)).'
    w.setup([{'op': 'raw', 'query': setup_q}, {'op': 'load', 'module': 'user', 'text': META}])
    for i in range(ctx.params['n']):
        cut_free = rng.random() < 0.4
        prog, sigs = progen.rprogram(rng, cuts=not cut_free, lib=True)
        has_cut = any(mp.has(b, 'cut') for cl in prog.values() for h, b in cl)
        base = 'c08_%d_%d' % (ctx.shard, i)
        ps, pd, pa = base + 's_', base + 'd_', base + 'a_'
        sig_all = list(prog.keys())
        # static
        text_s = c07.program_text(prog, ps) + wrappers(sig_all, ps)
        # discontiguous: declarations, then clauses interleaved round robin
        groups = clause_lines(prog, pd)
        decl = ''.join(':- discontiguous(%s%s/%d).\n' % (pd, n, a) for (n, a), _ in groups)
        inter = []
        k = 0
        while any(len(ls) > k for _, ls in groups):
            for _, ls in groups:
                if len(ls) > k:
                    inter.append(ls[k] + '.')
            k += 1
        text_d = decl + '\n'.join(inter) + '\n'
        # dynamic + assertz
        groups_a = clause_lines(prog, pa)
        text_a = ''.join(':- dynamic(%s%s/%d).\n' % (pa, n, a) for (n, a), _ in groups_a)
        asserts = ', '.join('assertz((%s))' % l for _, ls in groups_a for l in ls) + ', R = ok'
        jobs = [{'op': 'raw', 'query': setup_q}, {'op': 'load', 'module': 'user', 'text': META}]
        ok = True
        for t in (text_s, text_d, text_a):
            jobs.append({'op': 'load', 'module': 'user', 'text': t})
            if not arith.load_clauses(rec, w, t):
                ok = False
                break
        if not ok:
            continue
        o = arith.run_goal(w, asserts, var='R', timeout=60)
        jobs.append({'op': 'run', 'goal': asserts + ' .', 'limit': 2, 'pred': 'runr'})
        if o != ('val', mkatom('ok')):
            rec.violation({'kind': 'assertz_sequence_failed', 'how': o[0]}, {'goal': asserts[:2000], 'observed': arith.show_obs(o)[:300], 'jobs': jobs})
            continue
        qs = progen.rqueries(rng, sigs, 6) + rng.sample(progen.lib_queries(rng), 2)
        for goal, tmpl in qs:
            is_lib = goal[0] == 'and' or goal[1] in ('app', 'mem', 'len', 'rev')
            try:
                # queries whose evaluation orders distinct unbound variables are implementation dependent: skipped
                mp.Machine(prog).answers(goal, tmpl, limit=300)
            except (mp.Budget, RecursionError):
                rec.info['model_dropped'] += 1
                continue
            tt = to_text(tmpl)

            def run(gtext):
                q = 'findall(%s, ( %s ), R)' % (tt, gtext)
                return arith.run_goal(w, q, var='R', timeout=30), q
            ref, qref = run(mp.body_text(goal, lambda n: ps + n, to_text))
            if ref[0] != 'val':
                rec.info['reference_not_a_value'] += 1
                if ref[0] in ('panic', 'died'):
                    rec.violation({'kind': 'static_reference_' + ref[0]}, {'query': qref, 'observed': arith.show_obs(ref)[:300], 'jobs': jobs + [{'op': 'run', 'goal': qref + ' .', 'limit': 2, 'pred': 'runr'}]})
                continue
            nans = 0 if ref[1] == NIL else len(ref[1][1])
            variants = [('discontiguous', mp.body_text(goal, lambda n: pd + n, to_text)),
                        ('dynamic-assertz', mp.body_text(goal, lambda n: pa + n, to_text))]
            if not has_cut:
                variants.append(('meta-interpreter', "c08_solve(( %s ), '%s')" % (mp.body_text(goal, lambda n: pa + n, to_text), pa)))
            if goal[0] == 'call':
                n, args = goal[1], goal[2]
                at = [to_text(a) for a in args]
                variants.append(('call-1', 'G0 = %s(%s), call(G0)' % (ps + n, ', '.join(at))))
                variants.append(('call-N', 'call(%s, %s)' % (ps + n, ', '.join(at))))
                if len(at) >= 2:
                    variants.append(('call-partial', 'call(%s(%s), %s)' % (ps + n, at[0], ', '.join(at[1:]))))
                for k, st in ((1, 'wrapper-direct'), (2, 'wrapper-call-1'), (3, 'wrapper-call-N'), (4, 'wrapper-findall')):
                    variants.append((st, '%sw%d_%s(%s)' % (ps, k, n, ', '.join(at))))
            for st, gtext in variants:
                o, q = run(gtext)
                rec.case(st, (text_s, q), nontrivial=nans >= 2)
                if has_cut:
                    rec.case('with-cut', (text_s, q, 'c'))
                if is_lib:
                    rec.case('list-library', (text_s, q, 'l'))
                rec.info['answers_compared'] += nans
                if o[0] == 'timeout':
                    rec.inconc('timeout')
                    continue
                if o[0] == 'val' and rename_canonical(o[1]) == rename_canonical(ref[1]):
                    continue
                sig = {'kind': 'answers_differ_from_static' if o[0] == 'val' else o[0], 'mode': st, 'has_cut': has_cut}
                arith.panic_sig(sig, o)
                rec.violation(sig, {'program_static': text_s[:3000], 'query_static': qref, 'query_mode': q, 'static_answers': arith.show_obs(ref)[:500],
                                    'mode_answers': arith.show_obs(o)[:500],
                                    'jobs': jobs + [{'op': 'run', 'goal': qref + ' .', 'limit': 2, 'pred': 'runr'}, {'op': 'run', 'goal': q + ' .', 'limit': 2, 'pred': 'runr'}]})
        if len(rec.samples) < 4 and i % 9 == 0:
            rec.sample({'program': text_s[:600], 'modes': ['static', 'discontiguous', 'dynamic-assertz'] + ([] if has_cut else ['meta-interpreter'])})
