"""C12 Exceptions unwind precisely and leave the machine consistent.

Oracle: reference model + invariants.  (a) Goals built from logging steps, nondeterministic
alternatives, bindings, throw/1 with balls of many shapes and catch/3 with catchers that do or do not
unify are run to exhaustion; the event trace, the number of solutions, the uncaught ball and the
bindings visible in the recovery goal must equal a Python model of ISO 7.8.9/7.8.10.  (b)
setup_call_cleanup/3 activations: every activation's cleanup must run exactly once, after its
setup, whatever way the goal ends (deterministic exit, failure, exception, cut, exhaustion).  (c)
builtin errors must be error(Formal, Context) terms with an ISO formal."""
from .. import arith
from ..terms import mkint, mkatom, mklist, mkc, mkvar, NIL, show, to_text, rename_canonical
from ..miniprolog import unify, resolve

ID = 'C12'
LEVEL = 'exploration'
RULE = ('(a) goal trees of depth <= 4 over log(k), alt(k1,k2) (two logged alternatives), X = value, throw(Ball) with balls a, 42, f(x), '
        'f(X) with a bound or unbound variable, error(type_error(t,c),_), "str", [1,2], g(A,A); catch(G, Catcher, Recovery) with catchers '
        'that are the ball, a more general pattern, a variable, a non-unifying pattern; conjunction, disjunction, once/1, \\+, '
        'if-then-else, findall inside; all solutions are consumed; (b) setup_call_cleanup(log(s), G, log(c)) with G in {true, fail, '
        'throw, two alternatives, alternatives followed by failure or throw} in 8 contexts (exhaustive backtracking, once/1, '
        'conjunction with failure, catch/3, if-then-else condition, \\+, nested in another setup_call_cleanup, followed by throw); (c) 60 '
        'builtin misuse goals. distinct = distinct goals; non-trivial = goal with a throw or a cleanup')
PARAMS = {'quick': {'n': 700}, 'thorough': {'n': 40000}}
MIN_EVAL = {'quick': 15000, 'thorough': 800000}
STRATA = ['caught-by-innermost', 'passed-to-outer', 'uncaught', 'no-throw', 'bindings-undone', 'ball-copy', 'rethrow-in-recovery', 'backtrack-into-catch',
          'cleanup-deterministic-exit', 'cleanup-failure', 'cleanup-exception', 'cleanup-cut', 'cleanup-exhaustion', 'cleanup-nested', 'builtin-error-shape']
ASSUMPTIONS = ['ISO 7.8.9: the ball is copied at throw/1, bindings made since the catch/3 call are undone before the catcher is unified',
               'for setup_call_cleanup/3 only "exactly once, after the setup" is asserted, not the position of the cleanup relative to unrelated events']

HELPERS = r"""
:- dynamic(c12_ev/1).
c12_log(E) :- assertz(c12_ev(E)).
c12_alt(A, B) :- ( c12_log(A) ; c12_log(B) ).
c12_run(G, R) :-
    retractall(c12_ev(_)),
    catch(( findall(x, G, L), length(L, N), Out = solutions(N) ), Ball, Out = uncaught(Ball)),
    findall(E, c12_ev(E), Trace),
    R = r(Out, Trace).
"""


class Thrown(Exception):
    def __init__(self, ball):
        self.ball = ball


class Model:
    """goals: ('log',k) ('alt',k1,k2) ('bind',var,term) ('throw',term) ('catch',G,catcher,R) ('and',[..]) ('or',A,B) ('once',G)
    ('not',G) ('ite',C,T,E) ('findall',G) ('true',) ('fail',) ('logvar', k, var)"""
    def __init__(self):
        self.trace = []
        self.fresh = 5000

    def rename(self, t, m):
        if t[0] == 'v':
            if t[1] not in m:
                self.fresh += 1
                m[t[1]] = ('v', self.fresh)
            return m[t[1]]
        if t[0] == 'c':
            return ('c', t[1], tuple(self.rename(a, m) for a in t[2]))
        if t[0] == 'l':
            return ('l', tuple(self.rename(a, m) for a in t[1]), self.rename(t[2], m))
        return t

    def solve(self, g, s):
        k = g[0]
        if k == 'true':
            yield s
        elif k == 'fail':
            return
        elif k == 'log':
            self.trace.append(mkatom(g[1]))
            yield s
        elif k == 'logvar':
            t = resolve(g[2], s)
            self.trace.append(self.rename(mkc(g[1], mkatom('unbound') if t[0] == 'v' else t), {}))      # every logged term is stored as its own copy
            yield s
        elif k == 'alt':
            self.trace.append(mkatom(g[1]))
            yield s
            self.trace.append(mkatom(g[2]))
            yield s
        elif k == 'bind':
            s1 = unify(g[1], g[2], s)
            if s1 is not None:
                yield s1
        elif k == 'throw':
            ball = resolve(g[1], s)
            if ball[0] == 'v':
                ball = mkc('error', mkatom('instantiation_error'), mkc('/', mkatom('throw'), mkint(1)))      # 7.8.9.3
            raise Thrown(self.rename(ball, {}))
        elif k == 'and':
            yield from self.conj(g[1], 0, s)
        elif k == 'or':
            yield from self.solve(g[1], s)
            yield from self.solve(g[2], s)
        elif k == 'once':
            for s1 in self.solve(g[1], s):
                yield s1
                return
        elif k == 'not':
            for _ in self.solve(g[1], s):
                return
            yield s
        elif k == 'ite':
            first = None
            for s1 in self.solve(g[1], s):
                first = s1
                break
            if first is not None:
                yield from self.solve(g[2], first)
            else:
                yield from self.solve(g[3], s)
        elif k == 'findall':
            for _ in self.solve(g[1], s):
                pass
            yield s
        elif k == 'catch':
            gen = self.solve(g[1], s)
            while True:
                try:
                    s1 = next(gen)
                except StopIteration:
                    return
                except Thrown as t:
                    s2 = unify(g[2], t.ball, s)      # bindings since the catch are undone: unify under the entry substitution
                    if s2 is None:
                        raise
                    yield from self.solve(g[3], s2)
                    return
                yield s1
        else:
            raise ValueError(g)

    def conj(self, gs, i, s):
        if i == len(gs):
            yield s
            return
        for s1 in self.solve(gs[i], s):
            yield from self.conj(gs, i + 1, s1)

    def run(self, g):
        n = 0
        try:
            for _ in self.solve(g, {}):
                n += 1
            out = mkc('solutions', mkint(n))
        except Thrown as t:
            out = mkc('uncaught', t.ball)
        return mkc('r', out, mklist(self.trace))


def text(g):
    k = g[0]
    if k in ('true', 'fail'):
        return k
    if k == 'log':
        return 'c12_log(%s)' % g[1]
    if k == 'logvar':
        return '( var(%s) -> c12_log(%s(unbound)) ; c12_log(%s(%s)) )' % (to_text(g[2]), g[1], g[1], to_text(g[2]))
    if k == 'alt':
        return 'c12_alt(%s, %s)' % (g[1], g[2])
    if k == 'bind':
        return '%s = %s' % (to_text(g[1]), to_text(g[2]))
    if k == 'throw':
        return 'throw(%s)' % to_text(g[1])
    if k == 'and':
        return ', '.join(text(x) for x in g[1])
    if k == 'or':
        return '( %s ; %s )' % (text(g[1]), text(g[2]))
    if k == 'once':
        return 'once(( %s ))' % text(g[1])
    if k == 'not':
        return '\\+ ( %s )' % text(g[1])
    if k == 'ite':
        return '( %s -> %s ; %s )' % (text(g[1]), text(g[2]), text(g[3]))
    if k == 'findall':
        return 'findall(x, ( %s ), _)' % text(g[1])
    if k == 'catch':
        return 'catch(( %s ), %s, ( %s ))' % (text(g[1]), to_text(g[2]), text(g[3]))
    raise ValueError(g)


X, Y, Z, B = mkvar(1), mkvar(2), mkvar(3), mkvar(9)
BALLS = [mkatom('a'), mkint(42), mkc('f', mkatom('x')), mkc('f', X), mkc('error', mkc('type_error', mkatom('t'), mkatom('c')), Y),
         mklist([mkint(1), mkint(2)]), mkc('g', Z, Z), mkatom('b')]


class Gen:
    def __init__(self, rng):
        self.rng = rng
        self.k = 0
        self.feat = set()

    def ev(self):
        self.k += 1
        return 'e%d' % self.k

    def catcher_for(self, ball):
        r = self.rng.random()
        if r < 0.35:
            return ball, True
        if r < 0.55:
            return B, True
        if r < 0.7:
            # more general pattern of the same functor
            if ball[0] == 'c':
                self.k += 1
                return ('c', ball[1], tuple(mkvar(100 + self.k * 3 + j) for j in range(len(ball[2])))), True
            return B, True
        return self.rng.choice([mkatom('other'), mkc('f', mkatom('y')), mkint(7), mkc('h', B)]), False

    def goal(self, d):
        rng = self.rng
        r = rng.random()
        if d <= 0 or r < 0.22:
            k = rng.random()
            if k < 0.4:
                return ('log', self.ev())
            if k < 0.6:
                return ('alt', self.ev(), self.ev())
            if k < 0.75:
                return ('bind', rng.choice([X, Y, Z]), rng.choice([mkint(1), mkatom('v'), mkc('k', mkatom('z'))]))
            if k < 0.93:
                self.feat.add('throw')
                return ('throw', rng.choice(BALLS))
            return ('fail',) if k < 0.97 else ('true',)
        if r < 0.45:
            return ('and', [self.goal(d - 1) for _ in range(rng.randint(2, 3))])
        if r < 0.72:
            inner = self.goal(d - 1)
            ball = rng.choice(BALLS)
            catcher, _ = self.catcher_for(ball)
            rec_k = rng.random()
            v = rng.choice([X, Y, Z])
            if rec_k < 0.5:
                recovery = ('and', [('log', self.ev()), ('logvar', 'seen%d' % self.k, v)])
                self.feat.add('bindings')
            elif rec_k < 0.7:
                recovery = ('throw', rng.choice(BALLS + [B]))
                self.feat.add('rethrow')
            elif rec_k < 0.85:
                recovery = ('alt', self.ev(), self.ev())
            else:
                recovery = ('logvar', 'ball%d' % self.ev_n(), catcher if catcher[0] == 'v' else B)
                self.feat.add('ballcopy')
            if rng.random() < 0.6:
                inner = ('and', [inner, ('throw', ball)]) if rng.random() < 0.5 else ('and', [('bind', v, mkatom('tmp')), inner, ('throw', ball)])
                self.feat.add('throw')
            return ('catch', inner, catcher, recovery)
        if r < 0.8:
            return ('or', self.goal(d - 1), self.goal(d - 1))
        if r < 0.86:
            return ('once', self.goal(d - 1))
        if r < 0.9:
            return ('not', self.goal(d - 1))
        if r < 0.96:
            return ('ite', self.goal(d - 1), self.goal(d - 1), self.goal(d - 1))
        return ('findall', self.goal(d - 1))

    def ev_n(self):
        self.k += 1
        return self.k


SCC_GOALS = [('true', 'cleanup-deterministic-exit'), ('fail', 'cleanup-failure'), ('throw(c12_b)', 'cleanup-exception'),
             ('c12_alt(g1, g2)', 'cleanup-exhaustion'), ('( c12_alt(g1, g2), fail )', 'cleanup-failure'), ('( c12_alt(g1, g2), throw(c12_b) )', 'cleanup-exception'),
             ('( c12_log(g1), c12_alt(g2, g3) )', 'cleanup-exhaustion')]
SCC_CONTEXTS = [('%s', None), ('once(( %s )), c12_log(after)', 'cleanup-cut'), ('( %s, fail )', None), ('catch(( %s ), _, c12_log(caught))', None),
                ('( %s -> c12_log(then) ; c12_log(else) ), c12_log(after)', 'cleanup-cut'), ('( \\+ ( %s ) -> true ; true ), c12_log(after)', 'cleanup-cut'),
                ('setup_call_cleanup(c12_log(s2), ( %s ), c12_log(c2))', 'cleanup-nested'), ('( %s, throw(c12_after) )', 'cleanup-exception'),
                ('( %s, c12_log(before_cut), ! ; c12_log(other) )', 'cleanup-cut')]

BUILTIN_ERRORS = ['atom_length(1, _)', 'atom_length(_, _)', 'atom_length(a, foo)', 'arg(a, f(x), _)', 'arg(_, f(x), _)', 'functor(_, _, _)', 'functor(_, foo, -1)',
                  'X is foo + 1', 'X is _ + 1', 'X is 1 / 0', 'X is 1 mod 0', 'X is "ab" + 1', 'atom_codes(_, _)', 'atom_chars(_, [a|_])', 'number_codes(X, "3x")',
                  'number_chars(X, [a])', 'call(1)', 'call((foo, 1))', 'assertz((foo :- 1))', 'assertz(_)', 'assertz((atom(_) :- true))', 'atom_concat(_, _, _)',
                  'sub_atom(_, _, _, _, _)', 'char_code(_, _)', 'char_code(ab, _)', 'X =.. _', 'X =.. [f|_]', 'X =.. [1, 2]', 'copy_term(_, _), fail ; atom_length(f(x), _)',
                  'c12_no_such_predicate(1)', 'open(\'/nonexistent/dir/file\', read, _)', 'open(_, read, _)', 'open(f, badmode, _)', 'close(not_a_stream)',
                  'get_char(not_a_stream, _)', 'number_vars_undefined_predicate', 'succ(_, _)', 'succ(a, _)', 'succ(_, 0)', 'length(_, -1)', 'length(_, a)',
                  'msort(a, _)', 'sort(_, _)', 'keysort([a], _)', 'atom_to_term_undefined(a)', 'retract((_ :- _))', 'abolish(foo/a)', 'abolish(atom/1)',
                  'asserta((foo :- 1))', 'clause(_, _)', 'clause(4, _)', 'current_op(a, _, _)', 'op(1201, xfx, foo)', 'op(200, yfy, foo)', 'op(200, xfx, \',\')',
                  'set_prolog_flag(no_such_flag, 1)', 'current_prolog_flag(1, _)', 'throw(_)', 'number_codes(X, [0\' , 0\'1 | _])', 'X is 2 ** -1, X < a']
ISO_FORMALS = {'instantiation_error', 'type_error', 'domain_error', 'existence_error', 'permission_error', 'representation_error', 'evaluation_error',
               'resource_error', 'syntax_error', 'system_error', 'uninstantiation_error'}


def judge_scc(rec, setup, q, o, g, gs, c, cs, body, compiled, ctext):
    if True:
        rec.case(cs or gs, (body,))
        why = None
        if o[0] != 'val':
            why = 'run_' + o[0]
        else:
            trace = [] if o[1][2][1] == NIL else [x[1] for x in o[1][2][1][1] if x[0] == 'a']
            for s_ev, c_ev in (('s1', 'c1'), ('s2', 'c2')):
                if trace.count(c_ev) != trace.count(s_ev):
                    why = 'cleanup_count_differs_from_setup_count'
                elif s_ev in trace and trace.index(c_ev) < trace.index(s_ev):
                    why = 'cleanup_before_setup'
            if why is None and cs == 'cleanup-cut' and 'after' in trace and 'c1' in trace and trace.index('c1') > trace.index('after'):
                why = 'cleanup_of_cut_goal_ran_after_the_cutting_construct_completed'
            if why is None and 's1' in trace and gs == 'cleanup-deterministic-exit' and c == '%s' and trace != ['s1', 'c1']:
                why = 'cleanup_after_deterministic_exit_misplaced'
        if why:
            rec.violation({'kind': why, 'goal_kind': gs, 'context': cs or 'plain', 'compiled': compiled}, {'goal': q, 'clause': ctext, 'observed': arith.show_obs(o)[:400],
                                                                                      'jobs': setup + ([{'op': 'load', 'module': 'user', 'text': ctext}] if ctext else []) + [{'op': 'run', 'goal': q + ' .', 'limit': 2, 'pred': 'runr'}]})


def shard(ctx):
    rec = ctx.rec
    rng = ctx.rng
    w = ctx.worker()
    setup_q = 'use_module(library(lists)), use_module(library(iso_ext)).'
    setup = [{'op': 'raw', 'query': setup_q}, {'op': 'load', 'module': 'user', 'text': HELPERS}]
    w.setup(setup)
    # (c) builtin error shapes
    for k, g in enumerate(BUILTIN_ERRORS):
        if k % ctx.nshards != ctx.shard:
            continue
        q = 'catch(( %s -> R = succeeded ; R = failed ), E, R = caught(E))' % g
        o = arith.run_goal(w, q, var='R', timeout=30)
        rec.case('builtin-error-shape', (g,))
        if o[0] != 'val' or o[1][0] != 'c' or o[1][1] != 'caught':
            continue        # goals that do not raise on this system are not this check's business
        e = o[1][2][0]
        ok = e[0] == 'c' and e[1] == 'error' and len(e[2]) == 2 and e[2][0][0] in 'ca' and e[2][0][1] in ISO_FORMALS
        if not ok:
            rec.violation({'kind': 'builtin_error_not_an_iso_error_term', 'goal': g[:40]}, {'goal': q, 'observed': arith.show_obs(o)[:300],
                                                                                            'jobs': setup + [{'op': 'run', 'goal': q + ' .', 'limit': 2, 'pred': 'runr'}]})
    # (b) cleanup exactly once
    combos = [(g, gs, c, cs) for g, gs in SCC_GOALS for c, cs in SCC_CONTEXTS]
    for k, (g, gs, c, cs) in enumerate(combos):
        if k % ctx.nshards != ctx.shard:
            continue
        body = c % ('setup_call_cleanup(c12_log(s1), %s, c12_log(c1))' % g)
        for compiled in (False, True):
          if compiled:
            # the same body as a compiled clause (inline-compiled control constructs instead of call/1)
            cname = 'c12_scc_%d_%d' % (ctx.shard, k)
            ctext = '%s :- %s.\n' % (cname, body)
            if not arith.load_clauses(rec, w, ctext):
                continue
            q = 'c12_run(%s, R)' % cname
          else:
            ctext = None
            q = 'c12_run(( %s ), R)' % body
          o = arith.run_goal(w, q, var='R', timeout=30)
          judge_scc(rec, setup, q, o, g, gs, c, cs, body, compiled, ctext)

    # (a) catch/throw model
    seen = set()
    for i in range(ctx.params['n']):
        gen = Gen(rng)
        g = gen.goal(rng.choice([2, 3, 4]))
        body = text(g)
        if body in seen:
            continue
        seen.add(body)
        m = Model()
        try:
            expected = m.run(g)
        except RecursionError:
            continue
        q = 'c12_run(( %s ), R)' % body
        o = arith.run_goal(w, q, var='R', timeout=30)
        out_kind = expected[2][0][1]
        has_throw = 'throw(' in body
        has_catch = 'catch(' in body
        if not has_throw:
            st = 'no-throw'
        elif out_kind == 'uncaught':
            st = 'uncaught'
        else:
            st = 'caught-by-innermost' if body.count('catch(') == 1 else 'passed-to-outer'
        rec.case(st, (body,), nontrivial=has_throw)
        for f, name in (('bindings', 'bindings-undone'), ('rethrow', 'rethrow-in-recovery'), ('ballcopy', 'ball-copy')):
            if f in gen.feat and has_catch:
                rec.case(name, (body, f))
        if has_catch and 'c12_alt' in body:
            rec.case('backtrack-into-catch', (body, 'b'))
        if o[0] == 'timeout':
            rec.inconc('timeout')
            continue
        if o[0] == 'val' and rename_canonical(o[1]) == rename_canonical(expected):
            if len(rec.samples) < 5 and i % 53 == 0 and has_throw:
                rec.sample({'goal': body[:300], 'observed': arith.show_obs(o)[:200]})
            continue
        sig = {'kind': 'trace_or_outcome_differs_from_model' if o[0] == 'val' else o[0], 'stratum': st}
        arith.panic_sig(sig, o)
        rec.violation(sig, {'goal': q, 'expected': show(expected)[:600], 'observed': arith.show_obs(o)[:600],
                            'jobs': setup + [{'op': 'run', 'goal': q + ' .', 'limit': 2, 'pred': 'runr'}]})
