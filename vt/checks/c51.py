"""C51 CSV parsing and writing follow the documented format.

Oracle: reference model of RFC 4180 documents (generated together with their rows) with the
library's documented field typing; write_csv -> parse_csv round trip."""
from .. import simple, arith
from ..terms import mkint, mkfloat, mkatom, mklist, mkstr, mkc, NIL, dq_string, show, to_text

ID = 'C51'
LEVEL = 'exploration'
RULE = ('tables of 1-5 rows x 2-5 columns; fields: plain words, empty, integers and decimals (typed as numbers when unquoted), '
        'and fields that need quoting (containing the separator, double quotes, CR, LF, CRLF, leading/trailing spaces, Unicode); '
        'rendered per RFC 4180 with random extra quoting, separators , ; | and tab, line ends LF or CRLF, with/without trailing '
        'line end, with_header(true|false); parse direction compared with the generated rows; write direction: write_csv/3 to a '
        'file (options line_separator, token_separator, with_header, null_value) then parse_csv//2 must give the same frame. '
        'distinct = distinct (text|frame, options); non-trivial = all')
PARAMS = {'quick': {'n': 1200}, 'thorough': {'n': 50000}}
MIN_EVAL = {'quick': 15000, 'thorough': 600000}
STRATA = ['parse-plain', 'parse-quoted', 'write-roundtrip-plain', 'write-roundtrip-needs-quoting']
ASSUMPTIONS = ['field typing as documented: unquoted non-empty fields that are Prolog numbers become numbers, empty fields are [], '
               'quoted fields are strings; numeric-looking fields are restricted to plain integers and decimals',
               'rows have at least 2 columns (a row holding one empty field is the library\'s end marker)']

WORDS = ['one', 'two', 'abc', 'x', 'hello', 'Zed', 'été', '日本', 'a b', 'q']


def rfield(rng, sep, quoting):
    """-> (python value: str | int | float | None, must_quote)"""
    r = rng.random()
    if r < 0.12:
        return None, False
    if r < 0.3:
        return rng.choice([0, 1, 42, -7, 2 ** 64, 1000000]), False
    if r < 0.38:
        return rng.choice([1.5, -0.25, 3.0, 10.125]), False
    if r < 0.75 or not quoting:
        return rng.choice(WORDS), False
    s = rng.choice(['a%sb' % sep, 'say "hi"', 'line1\nline2', 'cr\rlf', 'crlf\r\nx', ' lead', 'trail ', '"', sep, '""', 'a,b;c|d'])
    return s, True


def render_field(rng, v, sep, must_quote):
    if v is None:
        return '' if rng.random() < 0.7 else '""'
    if isinstance(v, (int, float)):
        return repr(v) if isinstance(v, float) else str(v)
    if must_quote or rng.random() < 0.15:
        return '"' + v.replace('"', '""') + '"'
    return v


def term_of(v):
    if v is None:
        return NIL
    if isinstance(v, int):
        return mkint(v)
    if isinstance(v, float):
        return mkfloat(v)
    return mkstr(v)


def gen_cases(rng, n, scratch):
    for i in range(n):
        sep = rng.choice([',', ',', ';', '|', '\t'])
        nl = rng.choice(['\n', '\r\n'])
        cols = rng.randint(2, 5)
        nrows = rng.randint(1, 5)
        quoting = (i % 2 == 1)
        header = [rng.choice(['id', 'name', 'col', 'h', 'x y']) + str(j) for j in range(cols)]
        rows = [[rfield(rng, sep, quoting) for _ in range(cols)] for _ in range(nrows)]
        with_header = rng.random() < 0.6
        opts = []
        if sep != ',' or rng.random() < 0.3:
            opts.append("token_separator('%s')" % ('\\t' if sep == '\t' else sep))
        if not with_header or rng.random() < 0.3:
            opts.append('with_header(%s)' % ('true' if with_header else 'false'))
        frame = mkc('frame', mklist([mkstr(h) for h in header]) if with_header else NIL,
                    mklist([mklist([term_of(v) for v, _ in row]) for row in rows]))
        if i % 4 < 2:
            lines = []
            if with_header:
                lines.append(sep.join(render_field(rng, h, sep, False) for h in header))
            for row in rows:
                lines.append(sep.join(render_field(rng, v, sep, mq) for v, mq in row))
            text = nl.join(lines) + (nl if rng.random() < 0.5 else '')
            st = 'parse-quoted' if quoting else 'parse-plain'
            goal = '( phrase(parse_csv(F, [%s]), %s) -> R = F ; R = no_parse )' % (', '.join(opts), dq_string(text))
            yield st, goal, ('val', frame)
        else:
            wopts = list(opts)
            if rng.random() < 0.4:
                wopts.append("line_separator('%s')" % ('\\r\\n' if nl == '\r\n' else '\\n'))
            needs = any(mq for row in rows for _, mq in row)
            st = 'write-roundtrip-needs-quoting' if needs else 'write-roundtrip-plain'
            fpath = scratch + '/c51.csv'
            goal = ("F = %s, write_csv('%s', F, [%s]), open('%s', read, S), get_n_chars(S, _, Cs), close(S), "
                    "( phrase(parse_csv(F2, [%s]), Cs) -> R = F2 ; R = no_parse(Cs) )") % (to_text(frame), fpath, ', '.join(wopts), fpath, ', '.join(opts))
            extra = {'needs_quoting': needs}
            yield st, goal, ('val', frame), extra


def shard(ctx):
    w = ctx.worker()
    w.use_modules(['lists', 'dcgs', 'csv', 'charsio'])
    simple.run_cases(ctx, w, gen_cases(ctx.rng, ctx.params['n'], ctx.scratch_dir()),
                     setup_query='use_module(library(lists)), use_module(library(dcgs)), use_module(library(csv)), use_module(library(charsio)).', timeout=40)
