"""C22 Atom and character builtins agree with their string semantics.

Oracle: reference model on Python str (code points), incl. enumeration order for
atom_concat/3 and sub_atom/5, ISO errors, and char_type/2 against the ISO 6.5 character
tables (ASCII), Python case mapping (curated cased letters) and mode consistency."""
from .. import arith
from ..terms import mkint, mkatom, mklist, mkc, NIL, show, atom_operand, dq_string, mkstr

ID = 'C22'
LEVEL = 'exploration'
RULE = ('atoms of 0-12 characters over ASCII, 2/3/4-byte characters and combining marks; atom_length/2, atom_chars/2, atom_codes/2, '
        'char_code/2 in every mode; atom_concat/3 in modes (+,+,-), (-,-,+) [all splits, left to right], (+,-,+), (-,+,+), (+,+,+); '
        'sub_atom/5 with Sub unbound [all (B,L,A) triples in ISO order] and bound [all occurrences], and with B/L/A partially '
        'bound; ill-typed and unbound arguments (ISO instantiation/type/domain/representation errors); char_type/2: every ASCII '
        'character x every ISO 6.5 class, upper/1 and lower/1 string mappings for cased letters of Latin/Greek/Cyrillic, and '
        'agreement between the enumerating and the checking mode. distinct = distinct goals; non-trivial = all')
PARAMS = {'quick': {'n': 8000}, 'thorough': {'n': 200000}}
MIN_EVAL = {'quick': 50000, 'thorough': 1500000}
STRATA = ['atom_length', 'atom_chars', 'atom_codes', 'char_code', 'atom_concat', 'sub_atom-enum', 'sub_atom-find', 'sub_atom-partial',
          'errors', 'char_type-class', 'char_type-case', 'char_type-modes']
ASSUMPTIONS = ['Python str (sequence of code points) is the reference string model',
               'char_type classes follow the ISO 6.5 character tables for ASCII; non-ASCII classification is only checked for '
               'consistency between modes; case mapping uses letters whose mapping is stable across Unicode versions']

# no single-quote character: the atom made of two quotes is misprinted by writeq on this tree (a C55 finding)
# and results are read through the printer
POOL = ['a', 'b', 'c', 'x', 'A', 'Z', '0', '9', '_', ' ', '+', 'é', 'ñ', 'ß', '日', '本', '\U0001F600', 'é', '.', '"', '\\']
CLASSES = {
    'decimal_digit': set('0123456789'), 'binary_digit': set('01'), 'octal_digit': set('01234567'),
    'hexadecimal_digit': set('0123456789abcdefABCDEF'), 'sign': set('+-'), 'exponent': set('eE'),
    'solo': set('!(),;[]{}|%'), 'meta': set('\\\'"`'), 'graphic_token': set('#$&*+-./:<=>?@^~\\'),
    'symbolic_hexadecimal': set('x'), 'ascii': set(chr(i) for i in range(128)),
}
CASED = ['a', 'z', 'A', 'Z', 'é', 'É', 'ñ', 'Ñ', 'ö', 'Ö', 'α', 'Ω', 'ω', 'Σ', 'я', 'Я', 'д', 'Ж', 'ß', 'ǆ', 'ſ']


def rtext(rng, lo=0, hi=8):
    return ''.join(rng.choice(POOL) for _ in range(rng.randint(lo, hi)))


def A(s):
    return atom_operand(s)


def codes(s):
    return mklist([mkint(ord(c)) for c in s])


def gen_case(rng, i):
    """-> (stratum, goal binding R, expected: ('val', term) | ('err', name, first-arg or None))"""
    r = i % 12
    if r == 0:
        s = rtext(rng, 0, 12)
        k = rng.random()
        if k < 0.6:
            return 'atom_length', 'atom_length(%s, R)' % A(s), ('val', mkint(len(s)))
        n = rng.choice([len(s), len(s) + 1, 0])
        return 'atom_length', '( atom_length(%s, %d) -> R = y ; R = n )' % (A(s), n), ('val', mkatom('y' if n == len(s) else 'n'))
    if r == 1:
        s = rtext(rng, 0, 10)
        if rng.random() < 0.5:
            return 'atom_chars', 'atom_chars(%s, R)' % A(s), ('val', mkstr(s))
        return 'atom_chars', 'atom_chars(R, [%s])' % ','.join(A(c) for c in s), ('val', mkatom(s))
    if r == 2:
        s = rtext(rng, 0, 10)
        if rng.random() < 0.5:
            return 'atom_codes', 'atom_codes(%s, R)' % A(s), ('val', codes(s))
        return 'atom_codes', 'atom_codes(R, %s)' % show(codes(s)), ('val', mkatom(s))
    if r == 3:
        c = rng.choice(POOL + ['\x00', '\n', '\U0010FFFF', '\x7f'])[0]
        if rng.random() < 0.5:
            return 'char_code', 'char_code(%s, R)' % A(c), ('val', mkint(ord(c)))
        return 'char_code', 'char_code(R, %d)' % ord(c), ('val', mkatom(c))
    if r == 4:
        a, b = rtext(rng, 0, 5), rtext(rng, 0, 5)
        s = a + b
        k = rng.randrange(5)
        if k == 0:
            return 'atom_concat', 'atom_concat(%s, %s, R)' % (A(a), A(b)), ('val', mkatom(s))
        if k == 1:
            exp = mklist([mkc('-', mkatom(s[:j]), mkatom(s[j:])) for j in range(len(s) + 1)])
            return 'atom_concat', 'findall(X-Y, atom_concat(X, Y, %s), R)' % A(s), ('val', exp)
        if k == 2:
            return 'atom_concat', 'findall(Y, atom_concat(%s, Y, %s), R)' % (A(a), A(s)), ('val', mklist([mkatom(b)]))
        if k == 3:
            return 'atom_concat', 'findall(X, atom_concat(X, %s, %s), R)' % (A(b), A(s)), ('val', mklist([mkatom(a)]))
        other = rtext(rng, 0, 6)
        return 'atom_concat', '( atom_concat(%s, %s, %s) -> R = y ; R = n )' % (A(a), A(b), A(other)), ('val', mkatom('y' if other == s else 'n'))
    if r == 5:
        s = rtext(rng, 0, 6)
        n = len(s)
        trip = [(b, l, n - b - l) for b in range(n + 1) for l in range(n - b + 1)]
        exp = mklist([mkc('s', mkint(b), mkint(l), mkint(a), mkatom(s[b:b + l])) for b, l, a in trip])
        return 'sub_atom-enum', 'findall(s(B,L,A,S), sub_atom(%s, B, L, A, S), R)' % A(s), ('val', exp)
    if r == 6:
        s = rtext(rng, 1, 10)
        sub = s[rng.randrange(len(s)):][:rng.randint(0, 3)] if rng.random() < 0.7 else rtext(rng, 0, 2)
        occ = [b for b in range(len(s) - len(sub) + 1) if s[b:b + len(sub)] == sub]
        exp = mklist([mkc('s', mkint(b), mkint(len(sub)), mkint(len(s) - b - len(sub))) for b in occ])
        return 'sub_atom-find', 'findall(s(B,L,A), sub_atom(%s, B, L, A, %s), R)' % (A(s), A(sub)), ('val', exp)
    if r == 7:
        s = rtext(rng, 0, 8)
        n = len(s)
        k = rng.randrange(4)
        if k == 0:
            b = rng.randint(0, n)
            exp = mklist([mkc('s', mkint(l), mkatom(s[b:b + l])) for l in range(n - b + 1)])
            return 'sub_atom-partial', 'findall(s(L,S), sub_atom(%s, %d, L, _, S), R)' % (A(s), b), ('val', exp)
        if k == 1:
            l = rng.randint(0, n)
            exp = mklist([mkc('s', mkint(b), mkatom(s[b:b + l])) for b in range(n - l + 1)])
            return 'sub_atom-partial', 'findall(s(B,S), sub_atom(%s, B, %d, _, S), R)' % (A(s), l), ('val', exp)
        if k == 2:
            a = rng.randint(0, n)
            exp = mklist([mkc('s', mkint(b), mkatom(s[b:n - a])) for b in range(n - a + 1)])
            return 'sub_atom-partial', 'findall(s(B,S), sub_atom(%s, B, _, %d, S), R)' % (A(s), a), ('val', exp)
        b, l = rng.randint(0, n + 1), rng.randint(0, 3)
        ok = b + l <= n
        exp = mkc('s', mkint(n - b - l), mkatom(s[b:b + l])) if ok else mkatom('none')
        return 'sub_atom-partial', '( sub_atom(%s, %d, %d, A, S) -> R = s(A,S) ; R = none )' % (A(s), b, l), ('val', exp)
    if r == 8:
        errs = [
            ('atom_length(_, R)', ('err', 'instantiation_error', None)),
            ('atom_length(abc, foo)', ('err', 'type_error', ('a', 'integer'))),
            ('atom_length(abc, -1)', ('err', 'domain_error', ('a', 'not_less_than_zero'))),
            ('atom_length(f(x), R)', ('err', 'type_error', None)),
            ('atom_chars(_, _)', ('err', 'instantiation_error', None)),
            ('atom_chars(R, [a|_])', ('err', 'instantiation_error', None)),
            ('atom_chars(R, [a,_])', ('err', 'instantiation_error', None)),
            ('atom_chars(f(x), R)', ('err', 'type_error', None)),
            ('atom_chars(R, [a,bc])', ('err', 'type_error', ('a', 'character'))),
            ('atom_chars(R, foo)', ('err', 'type_error', ('a', 'list'))),
            ('atom_codes(_, _)', ('err', 'instantiation_error', None)),
            ('atom_codes(R, [0\'a|_])', ('err', 'instantiation_error', None)),
            ('atom_codes(R, [-1])', ('err', 'representation_error', ('a', 'character_code'))),
            ('atom_codes(R, [1114112])', ('err', 'representation_error', ('a', 'character_code'))),
            ('char_code(_, _)', ('err', 'instantiation_error', None)),
            ('char_code(ab, R)', ('err', 'type_error', ('a', 'character'))),
            ('char_code(R, a)', ('err', 'type_error', ('a', 'integer'))),
            ('char_code(R, -1)', ('err', 'representation_error', ('a', 'character_code'))),
            ('char_code(R, 55296)', ('err', 'representation_error', ('a', 'character_code'))),
            ('atom_concat(_, b, R)', ('err', 'instantiation_error', None)),
            ('atom_concat(a, _, R)', ('err', 'instantiation_error', None)),
            ('atom_concat(f(x), b, R)', ('err', 'type_error', None)),
            ('sub_atom(_, B, L, A, R)', ('err', 'instantiation_error', None)),
            ('sub_atom(f(x), B, L, A, R)', ('err', 'type_error', None)),
            ('sub_atom(abc, a, L, A, R)', ('err', 'type_error', ('a', 'integer'))),
            ('sub_atom(abc, B, L, A, f(x))', ('err', 'type_error', None)),
        ]
        g, e = rng.choice(errs)
        return 'errors', g, e
    if r == 9:
        c = chr(rng.randint(32, 126))
        cls = rng.choice(sorted(CLASSES))
        return 'char_type-class', '( char_type(%s, %s) -> R = y ; R = n )' % (A(c), cls), ('val', mkatom('y' if c in CLASSES[cls] else 'n'))
    if r == 10:
        c = rng.choice(CASED)
        if rng.random() < 0.5:
            return 'char_type-case', 'char_type(%s, upper(R))' % A(c), ('val', mkstr(c.upper()))
        return 'char_type-case', 'char_type(%s, lower(R))' % A(c), ('val', mkstr(c.lower()))
    c = rng.choice(POOL + [chr(rng.randint(33, 126))])[0]
    # enumerating mode vs checking mode over the atomic classes the enumeration returns
    return 'char_type-modes', ('findall(T, (char_type(%s, T), atom(T)), Ts), findall(T, (member(T, Ts), \\+ char_type(%s, T)), Bad), '
                               'findall(T, (member(T, [alnum,alpha,alphabetic,alphanumeric,ascii,ascii_graphic,ascii_punctuation,binary_digit,'
                               'control,decimal_digit,exponent,graphic,graphic_token,hexadecimal_digit,layout,lower,meta,numeric,octal_digit,'
                               'octet,prolog,sign,solo,symbolic_control,symbolic_hexadecimal,upper,whitespace]), char_type(%s, T), \\+ memberchk(T, Ts)), Missing), '
                               'R = r(Bad, Missing)') % (A(c), A(c), A(c)), ('val', mkc('r', NIL, NIL))


def shard(ctx):
    rec = ctx.rec
    rng = ctx.rng
    w = ctx.worker()
    w.use_modules(['lists', 'charsio'])
    n = ctx.params['n']
    seen = set()
    for i in range(n):
        st, goal, exp = gen_case(rng, i + ctx.shard)
        if goal in seen:
            continue
        seen.add(goal)
        rec.case(st, goal)
        o = arith.run_goal(w, goal, var='R', timeout=30)
        rec.info['calls_observed'] += 1
        if o[0] == 'timeout':
            rec.inconc('timeout')
            continue
        ok = False
        if exp[0] == 'val':
            ok = (o == ('val', exp[1]))
        else:
            if o[0] == 'err':
                f = o[1]
                name = f[1] if f[0] in 'ca' else None
                ok = name == exp[1] and (exp[2] is None or (f[0] == 'c' and f[2][0] == exp[2]))
        if ok:
            if len(rec.samples) < 6 and i % 61 == 0:
                rec.sample({'goal': goal[:300], 'observed': arith.show_obs(o)[:200]})
            continue
        sig = {'kind': 'wrong_result' if o[0] == 'val' else ('wrong_or_missing_error' if exp[0] == 'err' else o[0]), 'stratum': st,
               'pred': goal.split('(')[0].replace('findall', 'findall:' + goal.split('(')[2].split(',')[-1].strip() if goal.startswith('findall') else goal.split('(')[0])}
        if exp[0] == 'err':
            sig['goal'] = goal
        arith.panic_sig(sig, o)
        rec.violation(sig, {'goal': goal, 'expected': show(exp[1]) if exp[0] == 'val' else list(map(str, exp[1:])), 'observed': arith.show_obs(o)[:400],
                            'jobs': [{'op': 'raw', 'query': 'use_module(library(lists)), use_module(library(charsio)).'},
                                     {'op': 'run', 'goal': goal + ' .', 'limit': 2, 'pred': 'runr'}]})
