"""C48 File-system predicates reflect and change the real file system.

Oracle: history + model.  A Python shadow tree of a scratch directory is stepped with every
library(files) call; the outcome is compared with the model and, after every call, the real
directory tree (os.walk) is compared with the shadow.  Files are also created, changed and removed
behind the machine's back (by the harness) so that the predicates must reflect the real system."""
import os
import shutil

from .. import arith
from ..terms import mkint, mkatom, mklist, mkstr, mkc, NIL, dq_string, show

ID = 'C48'
LEVEL = 'exploration'
RULE = ('histories of 10-40 operations in a scratch directory over the names a b dir sub été 日本 "with space" x.txt and paths of depth '
        '1-3: file_exists directory_exists file_size directory_files make_directory make_directory_path delete_file '
        'delete_directory rename_file file_copy path_canonical path_segments (both directions), files written through open/3 and '
        'by the harness directly (external changes), ill-typed and unbound paths; after every operation the outcome is compared with '
        'the shadow tree and the real tree (names, kinds, sizes, contents) with the shadow. distinct = distinct (tree, operation); '
        'non-trivial = operation on a non-empty tree')
PARAMS = {'quick': {'n': 60}, 'thorough': {'n': 6000}}
MIN_EVAL = {'quick': 10000, 'thorough': 1200000}
STRATA = ['query-existing', 'query-missing', 'create', 'delete', 'rename', 'copy', 'canonical', 'segments', 'external-change', 'invalid-operation',
          'ill-typed', 'unicode-name']
ASSUMPTIONS = ['an operation the operating system refuses (creating an existing directory, deleting a non-empty directory, renaming onto a '
               'directory, missing parent) may fail or raise, but must leave the tree unchanged',
               'documented errors: existence_error(file|directory, Path) for delete_file/file_size/rename_file/file_copy/delete_directory '
               'on a missing object, type errors for non-character-list paths, instantiation errors for unbound paths',
               'directory_files/2 is compared as a set, with . and .. ignored']

NAMES = ['a', 'b', 'dir', 'sub', 'été', '日本', 'with space', 'x.txt']


class Tree:
    """shadow: dict relpath -> None (directory) | bytes (file content)"""
    def __init__(self):
        self.t = {}

    def isdir(self, p):
        return p == '' or self.t.get(p, 0) is None and p in self.t

    def isfile(self, p):
        return isinstance(self.t.get(p), bytes)

    def exists(self, p):
        return p == '' or p in self.t

    def parent(self, p):
        return p.rsplit('/', 1)[0] if '/' in p else ''

    def children(self, d):
        pre = d + '/' if d else ''
        return sorted(k[len(pre):] for k in self.t if k.startswith(pre) and '/' not in k[len(pre):] and k != d)

    def snapshot(self):
        return {k: (None if v is None else v) for k, v in self.t.items()}


def real_snapshot(root):
    out = {}
    for dp, dns, fns in os.walk(root):
        rel = os.path.relpath(dp, root)
        rel = '' if rel == '.' else rel
        for d in dns:
            out[(rel + '/' if rel else '') + d] = None
        for f in fns:
            with open(os.path.join(dp, f), 'rb') as fh:
                out[(rel + '/' if rel else '') + f] = fh.read()
    return out


def rpath(rng, tree, want=None):
    """a relative path; want in (None, 'file', 'dir', 'missing')"""
    if want == 'file':
        c = [k for k in tree.t if tree.isfile(k)]
        if c:
            return rng.choice(c)
    if want == 'dir':
        c = [k for k in tree.t if tree.isdir(k)]
        if c:
            return rng.choice(c)
    depth = rng.choice([1, 1, 2, 3])
    parts = []
    base = ''
    if rng.random() < 0.6:
        dirs = [k for k in tree.t if tree.isdir(k) and k.count('/') < 2]
        if dirs:
            base = rng.choice(dirs)
            depth = 1
    for _ in range(depth):
        parts.append(rng.choice(NAMES))
    return (base + '/' if base else '') + '/'.join(parts)


def shard(ctx):
    rec = ctx.rec
    rng = ctx.rng
    w = ctx.worker()
    setup_q = 'use_module(library(lists)), use_module(library(files)), use_module(library(charsio)).'
    w.setup([{'op': 'raw', 'query': setup_q}])
    root = os.path.realpath(ctx.scratch_dir()) + '/c48-%d' % ctx.shard
    for h in range(ctx.params['n']):
        shutil.rmtree(root, ignore_errors=True)
        os.makedirs(root)
        tree = Tree()
        jobs = [{'op': 'raw', 'query': setup_q}]
        hist = []
        for step in range(rng.randint(10, 40)):
            op = gen_op(rng, tree, root)
            if op.get('external'):
                op['external'](root)
                hist.append('[harness] ' + op['desc'])
                rec.case('external-change', (op['desc'], tuple(sorted(tree.t))))
                continue
            goal = 'catch(( %s -> R = yes(V) ; R = no ), error(E, _), R = raised(E))' % op['goal']
            o = arith.run_goal(w, goal, var='R', timeout=30)
            jobs.append({'op': 'run', 'goal': goal + ' .', 'limit': 2, 'pred': 'runr'})
            hist.append(op['goal'].replace(root, '<root>'))
            key = (op['goal'].replace(root, ''), tuple(sorted(tree.t)))
            rec.case(op['stratum'], key, nontrivial=bool(tree.t))
            if any(ord(c) > 127 for c in op['goal']):
                rec.case('unicode-name', key)
            why = None
            if o[0] != 'val':
                why = 'operation_' + o[0]
            else:
                r = o[1]
                kind = r[1]
                val = r[2][0] if r[0] == 'c' else None
                before = tree.snapshot()
                why = op['judge'](tree, kind, val)
                if why is None:
                    real = real_snapshot(root)
                    if real != tree.t:
                        why = 'real_tree_differs_from_model'
                        # resynchronise so that one discrepancy is reported once
                        tree.t = real
            if why:
                sig = {'kind': why, 'op': op['name'], 'stratum': op['stratum']}
                arith.panic_sig(sig, o)
                rec.violation(sig, {'history': hist[-12:], 'observed': arith.show_obs(o)[:300], 'tree_before': sorted(before) if o[0] == 'val' else None,
                                    'note': 'replay needs the scratch tree rebuilt from the history', 'jobs': jobs[-14:]})
                break
        if len(rec.samples) < 4:
            rec.sample({'history': hist[:10], 'final_tree': sorted(tree.t)})
    shutil.rmtree(root, ignore_errors=True)


def P(root, rel):
    return dq_string(root + ('/' + rel if rel else ''))


def err_is(val, name, first=None):
    if val is None or val[0] not in 'ca' or val[1] != name:
        return False
    return first is None or (val[0] == 'c' and val[2][0] == mkatom(first))


def gen_op(rng, tree, root):
    r = rng.random()
    if r < 0.10:
        # external change by the harness
        k = rng.random()
        if k < 0.5:
            p = rpath(rng, tree)
            if tree.isdir(tree.parent(p)) and not tree.isdir(p):
                data = bytes(rng.randrange(256) for _ in range(rng.choice([0, 1, 10, 1000])))

                def ext(root, p=p, data=data):
                    with open(root + '/' + p, 'wb') as f:
                        f.write(data)
                    tree.t[p] = data
                return {'external': ext, 'desc': 'write %d bytes to %s' % (len(data), p)}
        elif k < 0.75:
            p = rpath(rng, tree, 'file')
            if tree.isfile(p):
                def ext(root, p=p):
                    os.remove(root + '/' + p)
                    del tree.t[p]
                return {'external': ext, 'desc': 'remove file %s' % p}
        else:
            p = rpath(rng, tree)
            if tree.isdir(tree.parent(p)) and not tree.exists(p):
                def ext(root, p=p):
                    os.mkdir(root + '/' + p)
                    tree.t[p] = None
                return {'external': ext, 'desc': 'mkdir %s' % p}
    if r < 0.16:
        return ill_typed(rng, root)
    if r < 0.26:
        p = rpath(rng, tree, rng.choice([None, 'file', 'dir']))

        def judge(tree, kind, val, p=p):
            return None if (kind == 'yes') == tree.isfile(p) and kind != 'raised' else 'file_exists_disagrees'
        return {'name': 'file_exists', 'goal': 'file_exists(%s), V = t' % P(root, p), 'judge': judge, 'stratum': 'query-existing' if tree.exists(p) else 'query-missing'}
    if r < 0.34:
        p = rpath(rng, tree, rng.choice([None, 'file', 'dir']))

        def judge(tree, kind, val, p=p):
            return None if (kind == 'yes') == tree.isdir(p) and kind != 'raised' else 'directory_exists_disagrees'
        return {'name': 'directory_exists', 'goal': 'directory_exists(%s), V = t' % P(root, p), 'judge': judge, 'stratum': 'query-existing' if tree.exists(p) else 'query-missing'}
    if r < 0.41:
        p = rpath(rng, tree, rng.choice([None, 'file', 'file']))

        def judge(tree, kind, val, p=p):
            if tree.isfile(p):
                return None if kind == 'yes' and val == mkint(len(tree.t[p])) else 'file_size_wrong'
            return None if kind == 'raised' and err_is(val, 'existence_error', 'file') else 'file_size_of_missing_file_no_existence_error'
        return {'name': 'file_size', 'goal': 'file_size(%s, V)' % P(root, p), 'judge': judge, 'stratum': 'query-existing' if tree.isfile(p) else 'query-missing'}
    if r < 0.48:
        p = rpath(rng, tree, 'dir') if rng.random() < 0.8 else rpath(rng, tree)
        if rng.random() < 0.15:
            p = ''

        def judge(tree, kind, val, p=p):
            if tree.isdir(p):
                if kind != 'yes':
                    return 'directory_files_failed'
                names = set()
                if val != NIL:
                    for x in val[1]:
                        s = ''.join(a[1] for a in x[1]) if x != NIL and x[0] == 'l' else None
                        names.add(s)
                names -= {'.', '..'}
                return None if names == set(tree.children(p)) else 'directory_files_wrong'
            return None if kind in ('no', 'raised') else 'directory_files_of_missing_directory_succeeded'
        return {'name': 'directory_files', 'goal': 'directory_files(%s, V)' % P(root, p), 'judge': judge, 'stratum': 'query-existing' if tree.isdir(p) else 'query-missing'}
    if r < 0.58:
        p = rpath(rng, tree)
        path_variant = rng.random() < 0.4

        def judge(tree, kind, val, p=p, pv=path_variant):
            if pv:
                # mkdir -p
                comps = p.split('/')
                prefixes = ['/'.join(comps[:i + 1]) for i in range(len(comps))]
                if any(tree.isfile(q) for q in prefixes):
                    return None if kind in ('no', 'raised') else 'make_directory_path_through_a_file_succeeded'
                if kind != 'yes':
                    return 'make_directory_path_failed'
                for q in prefixes:
                    tree.t.setdefault(q, None)
                return None
            if tree.isdir(tree.parent(p)) and not tree.exists(p):
                if kind != 'yes':
                    return 'make_directory_failed'
                tree.t[p] = None
                return None
            return None if kind in ('no', 'raised') else 'invalid_make_directory_succeeded'
        valid = path_variant or (tree.isdir(tree.parent(p)) and not tree.exists(p))
        return {'name': 'make_directory_path' if path_variant else 'make_directory', 'goal': '%s(%s), V = t' % ('make_directory_path' if path_variant else 'make_directory', P(root, p)),
                'judge': judge, 'stratum': 'create' if valid else 'invalid-operation'}
    if r < 0.66:
        # create a file through the machine
        p = rpath(rng, tree)
        text = rng.choice(['', 'x', 'hello\n', 'été 日本\n', 'a' * 300])

        def judge(tree, kind, val, p=p, text=text):
            if tree.isdir(tree.parent(p)) and not tree.isdir(p):
                if kind != 'yes':
                    return 'open_for_write_failed'
                tree.t[p] = text.encode()
                return None
            return None if kind in ('no', 'raised') else 'open_on_invalid_path_succeeded'
        valid = tree.isdir(tree.parent(p)) and not tree.isdir(p)
        return {'name': 'open-write', 'goal': 'open(%s, write, S), atom_chars(A, %s), write(S, A), close(S), V = t' % (P(root, p), dq_string(text)), 'judge': judge,
                'stratum': 'create' if valid else 'invalid-operation'}
    if r < 0.74:
        p = rpath(rng, tree, rng.choice(['file', 'file', None, 'dir']))

        def judge(tree, kind, val, p=p):
            if tree.isfile(p):
                if kind != 'yes':
                    return 'delete_file_failed'
                del tree.t[p]
                return None
            return None if kind == 'raised' and err_is(val, 'existence_error', 'file') else 'delete_file_of_missing_file_no_existence_error'
        return {'name': 'delete_file', 'goal': 'delete_file(%s), V = t' % P(root, p), 'judge': judge, 'stratum': 'delete' if tree.isfile(p) else 'query-missing'}
    if r < 0.80:
        p = rpath(rng, tree, rng.choice(['dir', 'dir', None, 'file']))

        def judge(tree, kind, val, p=p):
            if p != '' and tree.isdir(p):
                if tree.children(p):
                    return None if kind in ('no', 'raised') else 'delete_of_non_empty_directory_succeeded'
                if kind != 'yes':
                    return 'delete_directory_failed'
                del tree.t[p]
                return None
            return None if kind == 'raised' and err_is(val, 'existence_error', 'directory') else 'delete_directory_of_missing_directory_no_existence_error'
        empty_dir = tree.isdir(p) and not tree.children(p)
        return {'name': 'delete_directory', 'goal': 'delete_directory(%s), V = t' % P(root, p), 'judge': judge,
                'stratum': 'delete' if empty_dir else ('invalid-operation' if tree.isdir(p) else 'query-missing')}
    if r < 0.90:
        src = rpath(rng, tree, rng.choice(['file', 'file', 'file', None]))
        dst = rpath(rng, tree)
        copy = rng.random() < 0.5
        name = 'file_copy' if copy else 'rename_file'

        def judge(tree, kind, val, src=src, dst=dst, copy=copy):
            if not tree.isfile(src):
                return None if kind == 'raised' and err_is(val, 'existence_error', 'file') else name + '_of_missing_file_no_existence_error'
            if tree.isdir(dst) or not tree.isdir(tree.parent(dst)):
                return None if kind in ('no', 'raised') else name + '_onto_invalid_target_succeeded'
            if kind != 'yes':
                return name + '_failed'
            data = tree.t[src]
            if not copy and src != dst:
                del tree.t[src]
            tree.t[dst] = data
            return None
        valid = tree.isfile(src) and not tree.isdir(dst) and tree.isdir(tree.parent(dst))
        return {'name': name, 'goal': '%s(%s, %s), V = t' % (name, P(root, src), P(root, dst)), 'judge': judge,
                'stratum': ('copy' if copy else 'rename') if valid else ('invalid-operation' if tree.isfile(src) else 'query-missing')}
    if r < 0.95:
        p = rpath(rng, tree, rng.choice(['file', 'dir', None]))
        variant = rng.choice(['plain', 'dot', 'dotdot', 'double-slash'])
        rel = p
        if variant == 'dot':
            rel = './' + p if False else p.replace('/', '/./')
        elif variant == 'dotdot' and tree.isdir(tree.parent(p)) and tree.parent(p):
            rel = tree.parent(p) + '/../' + tree.parent(p).rsplit('/', 1)[-1] + '/' + p.rsplit('/', 1)[-1]
        elif variant == 'double-slash':
            rel = p.replace('/', '//')

        def judge(tree, kind, val, p=p):
            if tree.exists(p):
                return None if kind == 'yes' and val == mkstr(root + '/' + p) else 'path_canonical_wrong'
            return None if kind == 'no' else 'path_canonical_of_missing_path_did_not_fail'
        return {'name': 'path_canonical', 'goal': 'path_canonical(%s, V)' % P(root, rel), 'judge': judge, 'stratum': 'canonical'}
    segs = [rng.choice(NAMES + ['', '..', '.']) for _ in range(rng.randint(1, 4))]
    if rng.random() < 0.3:
        segs = [''] + segs
    path = '/'.join(segs)
    if rng.random() < 0.5:
        def judge(tree, kind, val):
            return None if kind == 'yes' and val == mklist([mkstr(s) for s in segs]) else 'path_segments_split_wrong'
        return {'name': 'path_segments-split', 'goal': 'path_segments(%s, V)' % dq_string(path), 'judge': judge, 'stratum': 'segments'}

    def judge(tree, kind, val):
        return None if kind == 'yes' and val == mkstr(path) else 'path_segments_join_wrong'
    return {'name': 'path_segments-join', 'goal': 'path_segments(V, [%s])' % ', '.join(dq_string(s) for s in segs), 'judge': judge, 'stratum': 'segments'}


def ill_typed(rng, root):
    pred, ar = rng.choice([('file_exists', 1), ('directory_exists', 1), ('file_size', 2), ('directory_files', 2), ('make_directory', 1), ('make_directory_path', 1),
                           ('delete_file', 1), ('delete_directory', 1), ('rename_file', 2), ('file_copy', 2), ('path_canonical', 2)])
    bad = rng.choice(['_', 'abc', '42', 'f(x)', '[a|b]', '[1,2]', '"ok"-x'])
    if pred in ('rename_file', 'file_copy') and rng.random() < 0.3:
        args = '%s, %s' % (dq_string(root + '/nonexistent-c48'), bad)
    elif ar == 2 and pred not in ('rename_file', 'file_copy'):
        args = '%s, _' % bad
    elif ar == 2:
        args = '%s, "x"' % bad
    else:
        args = bad

    def judge(tree, kind, val):
        return None if kind == 'raised' and (err_is(val, 'type_error') or err_is(val, 'instantiation_error') or err_is(val, 'existence_error') or err_is(val, 'domain_error')) \
            else 'ill_typed_path_not_rejected'
    return {'name': pred + '(ill-typed)', 'goal': '%s(%s), V = t' % (pred, args), 'judge': judge, 'stratum': 'ill-typed'}
