"""C45 read_term/2 reports variables, names and singletons exactly.

Oracle: reference model computed from the generator's own placement of variable tokens in
the clause text (no Prolog parser needed): variables/1, variable_names/1 and singletons/1
must list exactly what was placed, in first-occurrence order, and the named variables must
sit at the generated positions of the term."""
from .. import arith
from ..terms import (mkint, mkc, mkatom, mklist, NIL, show, rename_canonical, term_vars, dq_string, subst, quote_atom)

ID = 'C45'
LEVEL = 'exploration'
RULE = ('clause texts of up to ~30 nodes with 0-8 named variables in random repetition patterns (X, Y, Foo, _A, __, _1, X1, Éa, '
        'very long names), anonymous _ (each a distinct variable), variables under operators, in lists, curly terms and nested '
        'structures, and decoys that must not count (inside quoted atoms, strings, 0\'X character codes, block and line comments); '
        'read with read_term_from_chars/3 and from a real file stream with every subset/order of the options variables/1, '
        'variable_names/1, singletons/1. distinct = distinct (text, option order); non-trivial = text has >= 2 variable tokens')
PARAMS = {'quick': {'n': 2500}, 'thorough': {'n': 120000}}
MIN_EVAL = {'quick': 30000, 'thorough': 1500000}
STRATA = ['no-vars', 'named-only', 'with-anonymous', 'underscore-prefixed', 'decoys', 'repeated', 'stream']
ASSUMPTIONS = ['ISO 8.14.1: variables in left-to-right first-occurrence order; each _ distinct; singletons = named variables '
               '(including _-prefixed ones) occurring once', 'the generator places variable tokens itself, so their order in the text is known']

NAMES = ['X', 'Y', 'Z', 'Foo', 'Bar', '_A', '_B', '__', '_1', 'X1', 'A_b', 'Éa', 'Ω', 'VeryLongVariableName_with_digits_0123456789', '_Xyz']
ATOMS = ['a', 'b', 'foo', '[]', 'x']
DECOYS = ["'X'", '"Y"', "0'Z", "'_A'", "/* Foo */ c", "d /* X */", "'a X b'", "0'_", "'_'"]


class Gen:
    def __init__(self, rng):
        self.rng = rng
        self.pool = rng.sample(NAMES, rng.randint(0, 5))
        self.occ = []          # variable tokens in text order: name or ('anon', k)
        self.anon = 0
        self.decoys = 0

    def var(self):
        r = self.rng.random()
        if r < 0.25 or not self.pool:
            self.anon += 1
            v = ('anon', self.anon)
            self.occ.append(v)
            return '_', ('v', v)
        n = self.rng.choice(self.pool)
        self.occ.append(n)
        return n, ('v', n)

    def term(self, depth):
        """-> (text, model term)"""
        r = self.rng.random()
        if depth <= 0 or r < 0.25:
            k = self.rng.random()
            if k < 0.5:
                return self.var()
            if k < 0.7:
                a = self.rng.choice(ATOMS)
                return a, mkatom(a)
            if k < 0.85:
                n = self.rng.randint(0, 99)
                return str(n), mkint(n)
            d = self.rng.choice(DECOYS)
            self.decoys += 1
            return d, ('decoy', d)
        if r < 0.5:
            ar = self.rng.randint(1, 3)
            parts = [self.term(depth - 1) for _ in range(ar)]
            name = self.rng.choice(['f', 'g', 'point'])
            return '%s(%s)' % (name, ', '.join(p[0] for p in parts)), mkc(name, *[p[1] for p in parts])
        if r < 0.65:
            parts = [self.term(depth - 1) for _ in range(self.rng.randint(1, 3))]
            if self.rng.random() < 0.3:
                tl = self.var()
                return '[%s|%s]' % (', '.join(p[0] for p in parts), tl[0]), mklist([p[1] for p in parts], tl[1])
            return '[%s]' % ', '.join(p[0] for p in parts), mklist([p[1] for p in parts])
        if r < 0.85:
            op = self.rng.choice(['+', '-', '*', '=', ':-', ',', ';', '->', 'is', '<'])
            a = self.term(depth - 1)
            b = self.term(depth - 1)
            return '(%s %s %s)' % (a[0], op, b[0]), mkc(op, a[1], b[1])
        if r < 0.93:
            a = self.term(depth - 1)
            return '{%s}' % a[0], mkc('{}', a[1])
        a = self.term(depth - 1)
        op = self.rng.choice(['-', '\\+'])
        return '(%s (%s))' % (op, a[0]), mkc(op, a[1])


def shard(ctx):
    rec = ctx.rec
    rng = ctx.rng
    w = ctx.worker()
    w.use_modules(['lists', 'charsio'])
    n = ctx.params['n']
    seen = set()
    fpath = ctx.scratch_dir() + '/c45.pl'
    for i in range(n):
        g = Gen(rng)
        text, model = g.term(rng.choice([1, 2, 3, 3, 4]))
        if rng.random() < 0.2:
            text = '% X Y _Z\n' + text + ' % Trailing Var\n'
        opts = ['variables(Vs)', 'variable_names(VNs)', 'singletons(Ss)']
        rng.shuffle(opts)
        k = rng.choice([3, 3, 3, 2, 1])
        used = opts[:k]
        key = (text, tuple(used))
        if key in seen:
            continue
        seen.add(key)
        # expectations
        first = []
        for v in g.occ:
            if v not in first:
                first.append(v)
        named = [v for v in first if isinstance(v, str)]
        singles = [v for v in named if g.occ.count(v) == 1]
        st = ('no-vars' if not g.occ else 'decoys' if g.decoys else 'with-anonymous' if g.anon else
              'underscore-prefixed' if any(isinstance(v, str) and v.startswith('_') for v in first) else
              'repeated' if len(g.occ) > len(first) else 'named-only')
        via_stream = (i % 7 == 0)
        binds = ''.join(', %s = %s' % (nm, nm) for nm in [])
        tail = 'R = r(T, %s, %s, %s)' % ('Vs' if 'variables(Vs)' in used else 'none', 'VNs' if 'variable_names(VNs)' in used else 'none',
                                        'Ss' if 'singletons(Ss)' in used else 'none')
        if via_stream:
            with open(fpath, 'w', encoding='utf-8') as f:
                f.write(text + ' .\n')
            goal = "open('%s', read, S), read_term(S, T, [%s]), close(S), %s" % (fpath, ', '.join(used), tail)
            rec.strata['stream'] += 1
        else:
            goal = 'read_term_from_chars(%s, T, [%s]), %s' % (dq_string(text + ' .'), ', '.join(used), tail)
        o = arith.run_goal(w, goal, var='R', timeout=20)
        rec.case(st, key, nontrivial=len(g.occ) >= 2)
        rec.info['reads_observed'] += 1
        if o[0] == 'timeout':
            rec.inconc('timeout')
            continue
        why = judge(o, model, first, named, singles, used)
        if why is None:
            if len(rec.samples) < 6 and i % 83 == 0:
                rec.sample({'text': text, 'options': used, 'observed': arith.show_obs(o)[:300]})
            continue
        sig = {'kind': why, 'stratum': st, 'via': 'stream' if via_stream else 'chars'}
        arith.panic_sig(sig, o)
        rec.violation(sig, {'text': text, 'options': used, 'expected': {'first_occurrence': [str(v) for v in first], 'named': named, 'singletons': singles},
                            'observed': arith.show_obs(o)[:600],
                            'jobs': [{'op': 'raw', 'query': 'use_module(library(charsio)).'}] + ([{'op': 'run', 'goal': goal + ' .', 'limit': 2, 'pred': 'runr'}] if not via_stream else [])})


def strip_decoys(t):
    """model term with decoys replaced by a wildcard marker; returns (term, has_decoy)"""
    return t


def judge(o, model, first, named, singles, used):
    if o[0] != 'val':
        return o[0]
    r = o[1]
    if r[0] != 'c' or r[1] != 'r' or len(r[2]) != 4:
        return 'garbled'
    T, Vs, VNs, Ss = r[2]

    def as_list(x):
        if x == NIL:
            return []
        if x[0] == 'l' and x[2] == NIL:
            return list(x[1])
        return None
    tv = term_vars(T)
    if len(tv) != len(first):
        return 'wrong_number_of_variables_in_term'
    # variables/1: exactly the term's variables in first-occurrence order
    if 'variables(Vs)' in used:
        vs = as_list(Vs)
        if vs is None or vs != tv:
            return 'variables_option_wrong'
    else:
        if Vs != ('a', 'none'):
            return 'garbled'
    # map engine variables to generator tokens by first-occurrence position
    pos = {v: k for k, v in enumerate(tv)}
    if 'variable_names(VNs)' in used:
        vn = as_list(VNs)
        if vn is None:
            return 'variable_names_not_a_list'
        got = []
        for e in vn:
            if e[0] != 'c' or e[1] != '=' or e[2][0][0] != 'a' or e[2][1][0] != 'v':
                return 'variable_names_malformed'
            got.append((e[2][0][1], e[2][1]))
        if [nm for nm, _ in got] != named:
            return 'variable_names_wrong_names_or_order'
        for nm, var in got:
            if var not in pos or first[pos[var]] != nm:
                return 'variable_name_bound_to_wrong_variable'
    if 'singletons(Ss)' in used:
        ss = as_list(Ss)
        if ss is None:
            return 'singletons_not_a_list'
        got = []
        for e in ss:
            if e[0] != 'c' or e[1] != '=' or e[2][0][0] != 'a' or e[2][1][0] != 'v':
                return 'singletons_malformed'
            got.append((e[2][0][1], e[2][1]))
        # the statement fixes the *set* of singletons, not their order
        if sorted(nm for nm, _ in got) != sorted(singles):
            return 'singletons_wrong'
        for nm, var in got:
            if var not in pos or first[pos[var]] != nm:
                return 'singleton_bound_to_wrong_variable'
    # structure: the term must be the model with variables at the generated places
    m = {}
    for k, v in enumerate(first):
        m[('v', v)] = tv[k]
    if not same_shape(subst_model(model, m), T):
        return 'term_structure_differs'
    return None


def subst_model(t, m):
    k = t[0]
    if k == 'v':
        return m[t]
    if k == 'c':
        return ('c', t[1], tuple(subst_model(a, m) for a in t[2]))
    if k == 'l':
        return mklist([subst_model(a, m) for a in t[1]], subst_model(t[2], m))
    return t


def same_shape(model, got):
    """equality where ('decoy', text) matches any variable-free term"""
    if model[0] == 'decoy':
        return not term_vars(got)
    if model[0] != got[0]:
        return False
    if model[0] == 'c':
        return model[1] == got[1] and len(model[2]) == len(got[2]) and all(same_shape(a, b) for a, b in zip(model[2], got[2]))
    if model[0] == 'l':
        return len(model[1]) == len(got[1]) and all(same_shape(a, b) for a, b in zip(model[1], got[1])) and same_shape(model[2], got[2])
    return model == got
