"""C14 Sorting builtins and collection libraries match their models.

Oracle: reference list/set/map models (Python lists ordered by the C13 reference order,
dict for assoc) next to the engine."""
from .. import refterm, arith
from ..refterm import std_sort, compare as tcmp
from ..terms import (mkint, mkfloat, mkc, mkatom, mklist, mkvar, mkstr, NIL, to_text, to_text_varied, show, rename_canonical)
from ..gen import rand_int, rand_float, rand_rat

ID = 'C14'
LEVEL = 'exploration'
RULE = ('lists (length 0-30) of variable-free mixed terms with duplicates and equal numbers in different representations, written '
        'as plain lists, as strings where they are char lists, with char prefixes (stored as partial strings), and with integers '
        'boxed through bignum arithmetic; operations: sort/2, keysort/2 (stability), library(lists) append/3 (all modes), append/2, '
        'length/2, nth0/nth1 (index bound and enumerating), reverse/2, select/3, memberchk/2, sum_list/2, list_max/list_min, '
        'list_to_set/2, same_length/2, permutation/2 (count and multiset), transpose/2; ordsets (list_to_ord_set, ord_union/3, '
        'ord_subtract/3, ord_intersection/3, ord_memberchk/2, ord_add_element/3, ord_del_element/3, ord_subset/2, ord_disjoint/2, '
        'ord_symdiff/3, is_ordset/1); assoc histories (put/get/del/min/max/list_to_assoc) against a dict with ordered keys; pairs '
        '(pairs_keys_values, pairs_keys, pairs_values, group_pairs_by_key). distinct = distinct goals; non-trivial = all')
PARAMS = {'quick': {'n': 4000}, 'thorough': {'n': 150000}}
MIN_EVAL = {'quick': 40000, 'thorough': 1500000}
STRATA = ['sort', 'keysort', 'lists', 'ordsets', 'assoc', 'pairs', 'sort:char-prefix']
ASSUMPTIONS = ['the order is the C13 reference order; elements are variable-free so the order is fully predicted',
               'only exported, documented predicates; solution order asserted for append/3, select/3, nth0/nth1, member/2']


def elem(rng, depth=1):
    r = rng.random()
    if r < 0.25:
        return mkint(rng.randint(-3, 6))
    if r < 0.33:
        return mkint(rng.choice([2 ** 55, 2 ** 64, -(2 ** 64), 2 ** 55 - 1, 10 ** 20]))
    if r < 0.45:
        return mkfloat(rng.choice([1.0, 2.0, -1.5, 0.5, 3.0, 1e10, 2.5]))
    if r < 0.5:
        return rand_rat(rng) if rng.random() < 0.5 else ('r', 1, 2)
    if r < 0.75:
        return mkatom(rng.choice(['a', 'b', 'c', 'd', 'foo', 'é', 'ab', 'z', '[]', 'B']))
    if r < 0.85 or depth <= 0:
        return mkstr(rng.choice(['ab', 'abc', 'b', '', 'abd']))
    if r < 0.93:
        return mkc(rng.choice(['f', 'g', 'f']), *[elem(rng, depth - 1) for _ in range(rng.randint(1, 2))])
    return mklist([elem(rng, depth - 1) for _ in range(rng.randint(1, 3))])


def rlist(rng, maxlen=12, dup=True):
    n = rng.choice([0, 1, 2, 3, 5, 8, maxlen])
    pool = [elem(rng) for _ in range(max(1, n // 2 + 1))] if dup else None
    return [rng.choice(pool) if dup and rng.random() < 0.5 else elem(rng) for _ in range(n)]


def T(items):
    return mklist(items)


def gen_case(rng, i):
    """-> (stratum, pre-goals, goal text binding R, expected term or list of terms for all-solutions (wrapped in findall))"""
    r = i % 10
    pre = []

    def txt(t):
        return to_text_varied(t, rng, pre)

    if r == 0:
        L = rlist(rng)
        if rng.random() < 0.3:
            # a char prefix followed by non-chars: stored as a partial string prefix
            L = [mkatom(c) for c in rng.choice(['c', 'ab', 'xyz'])] + L
            st = 'sort:char-prefix'
        else:
            st = 'sort'
        return st, pre, 'sort(%s, R)' % txt(T(L)), T(std_sort(L))
    if r == 1:
        keys = [elem(rng, 0) for _ in range(rng.randint(1, 4))]
        L = [mkc('-', rng.choice(keys), mkint(j)) for j in range(rng.randint(0, 12))]
        import functools
        exp = sorted(L, key=functools.cmp_to_key(lambda a, b: tcmp(a[2][0], b[2][0])))
        return 'keysort', pre, 'keysort(%s, R)' % txt(T(L)), T(exp)
    if r == 2:
        A, B = rlist(rng, 6), rlist(rng, 6)
        k = rng.random()
        if k < 0.25:
            return 'lists', pre, 'append(%s, %s, R)' % (txt(T(A)), txt(T(B))), T(A + B)
        if k < 0.5:
            L = A + B
            exp = T([mkc('-', T(L[:j]), T(L[j:])) for j in range(len(L) + 1)])
            return 'lists', pre, 'findall(X-Y, append(X, Y, %s), R)' % txt(T(L)), exp
        if k < 0.75:
            L = A + B
            ok = True
            return 'lists', pre, '( append(%s, Y, %s) -> R = Y ; R = none )' % (txt(T(A)), txt(T(L))), T(B)
        LL = [rlist(rng, 3) for _ in range(rng.randint(0, 4))]
        return 'lists', pre, 'append(%s, R)' % txt(T([T(x) for x in LL])), T([y for x in LL for y in x])
    if r == 3:
        L = rlist(rng, 8)
        k = rng.random()
        if k < 0.2:
            return 'lists', pre, 'length(%s, R)' % txt(T(L)), mkint(len(L))
        if k < 0.4:
            return 'lists', pre, 'reverse(%s, R)' % txt(T(L)), T(L[::-1])
        if k < 0.6:
            exp = T([mkc('-', mkint(j), x) for j, x in enumerate(L)])
            return 'lists', pre, 'findall(I-E, nth0(I, %s, E), R)' % txt(T(L)), exp
        if k < 0.8 and L:
            j = rng.randrange(len(L))
            which = rng.choice(['nth0', 'nth1'])
            return 'lists', pre, '%s(%d, %s, R)' % (which, j + (which == 'nth1'), txt(T(L))), L[j]
        x = rng.choice(L) if L and rng.random() < 0.7 else elem(rng)
        exp = T([T(L[:j] + L[j + 1:]) for j in range(len(L)) if tcmp(L[j], x) == 0])
        return 'lists', pre, 'findall(Rest, select(%s, %s, Rest), R)' % (txt(x), txt(T(L))), exp
    if r == 4:
        k = rng.random()
        if k < 0.25:
            nums = [mkint(rng.choice([rng.randint(-9, 9), 2 ** 55, 2 ** 64, -(2 ** 63)])) for _ in range(rng.randint(0, 8))]
            return 'lists', pre, 'sum_list(%s, R)' % txt(T(nums)), mkint(sum(x[1] for x in nums))
        if k < 0.5:
            nums = [mkint(rng.choice([rng.randint(-9, 9), 2 ** 55, 2 ** 64, -(2 ** 63)])) for _ in range(rng.randint(1, 8))]
            f = rng.choice(['list_max', 'list_min'])
            v = (max if f == 'list_max' else min)(x[1] for x in nums)
            return 'lists', pre, '%s(%s, R)' % (f, txt(T(nums))), mkint(v)
        if k < 0.75:
            L = rlist(rng, 10)
            seen = []
            for x in L:
                if not any(tcmp(x, y) == 0 for y in seen):
                    seen.append(x)
            return 'lists', pre, 'list_to_set(%s, R)' % txt(T(L)), T(seen)
        L = rlist(rng, 4)[:4]
        import itertools
        perms = [T(list(p)) for p in itertools.permutations(L)]
        exp = T(std_sort(perms, dedup=False))
        return 'lists', pre, 'findall(P, permutation(%s, P), Ps), msort_(Ps, R)' % txt(T(L)), exp
    if r == 5:
        A, B = std_sort(rlist(rng, 10)), std_sort(rlist(rng, 10))
        if rng.random() < 0.4 and A:
            B = std_sort(B + [rng.choice(A)])
        k = rng.choice(['ord_union', 'ord_subtract', 'ord_intersection', 'ord_symdiff', 'ord_subset', 'ord_disjoint', 'ord_memberchk',
                        'ord_add_element', 'ord_del_element', 'list_to_ord_set', 'is_ordset'])

        def inset(x, S):
            return any(tcmp(x, y) == 0 for y in S)
        if k == 'ord_union':
            return 'ordsets', pre, 'ord_union(%s, %s, R)' % (txt(T(A)), txt(T(B))), T(std_sort(A + B))
        if k == 'ord_subtract':
            return 'ordsets', pre, 'ord_subtract(%s, %s, R)' % (txt(T(A)), txt(T(B))), T([x for x in A if not inset(x, B)])
        if k == 'ord_intersection':
            return 'ordsets', pre, 'ord_intersection(%s, %s, R)' % (txt(T(A)), txt(T(B))), T([x for x in A if inset(x, B)])
        if k == 'ord_symdiff':
            return 'ordsets', pre, 'ord_symdiff(%s, %s, R)' % (txt(T(A)), txt(T(B))), T(std_sort([x for x in A if not inset(x, B)] + [x for x in B if not inset(x, A)]))
        if k == 'ord_subset':
            if rng.random() < 0.5:
                A = [x for x in B if rng.random() < 0.6]
            return 'ordsets', pre, '( ord_subset(%s, %s) -> R = y ; R = n )' % (txt(T(A)), txt(T(B))), mkatom('y' if all(inset(x, B) for x in A) else 'n')
        if k == 'ord_disjoint':
            return 'ordsets', pre, '( ord_disjoint(%s, %s) -> R = y ; R = n )' % (txt(T(A)), txt(T(B))), mkatom('n' if any(inset(x, B) for x in A) else 'y')
        x = rng.choice(A) if A and rng.random() < 0.6 else elem(rng)
        if k == 'ord_memberchk':
            return 'ordsets', pre, '( ord_memberchk(%s, %s) -> R = y ; R = n )' % (txt(x), txt(T(A))), mkatom('y' if inset(x, A) else 'n')
        if k == 'ord_add_element':
            return 'ordsets', pre, 'ord_add_element(%s, %s, R)' % (txt(T(A)), txt(x)), T(std_sort(A + [x]))
        if k == 'ord_del_element':
            return 'ordsets', pre, 'ord_del_element(%s, %s, R)' % (txt(T(A)), txt(x)), T([y for y in A if tcmp(x, y) != 0])
        if k == 'list_to_ord_set':
            L = rlist(rng, 10)
            return 'ordsets', pre, 'list_to_ord_set(%s, R)' % txt(T(L)), T(std_sort(L))
        L = rlist(rng, 5, dup=False)
        if rng.random() < 0.5:
            L = std_sort(L)
        strictly = all(tcmp(L[j], L[j + 1]) < 0 for j in range(len(L) - 1))
        return 'ordsets', pre, '( is_ordset(%s) -> R = y ; R = n )' % txt(T(L)), mkatom('y' if strictly else 'n')
    if r in (6, 7):
        return assoc_history(rng, pre, txt)
    if r == 8:
        ks = [elem(rng, 0) for _ in range(rng.randint(0, 8))]
        vs = [mkint(j) for j in range(len(ks))]
        ps = [mkc('-', k, v) for k, v in zip(ks, vs)]
        k = rng.random()
        if k < 0.3:
            return 'pairs', pre, 'pairs_keys_values(R, %s, %s)' % (txt(T(ks)), txt(T(vs))), T(ps)
        if k < 0.5:
            return 'pairs', pre, 'pairs_keys(%s, R)' % txt(T(ps)), T(ks)
        if k < 0.7:
            return 'pairs', pre, 'pairs_values(%s, R)' % txt(T(ps)), T(vs)
        # group_pairs_by_key groups *adjacent* equal keys (documented for sorted input): use sorted input
        import functools
        sp = sorted(ps, key=functools.cmp_to_key(lambda a, b: tcmp(a[2][0], b[2][0])))
        groups = []
        for p in sp:
            if groups and tcmp(groups[-1][0], p[2][0]) == 0:
                groups[-1][1].append(p[2][1])
            else:
                groups.append((p[2][0], [p[2][1]]))
        return 'pairs', pre, 'group_pairs_by_key(%s, R)' % txt(T(sp)), T([mkc('-', k, T(v)) for k, v in groups])
    L1, L2 = rlist(rng, 5), rlist(rng, 5)
    if rng.random() < 0.5:
        L2 = L2[:len(L1)] + [elem(rng)] * max(0, len(L1) - len(L2))
    if rng.random() < 0.5:
        return 'lists', pre, '( same_length(%s, %s) -> R = y ; R = n )' % (txt(T(L1)), txt(T(L2))), mkatom('y' if len(L1) == len(L2) else 'n')
    rows, cols = rng.randint(1, 4), rng.randint(1, 4)
    M = [[elem(rng, 0) for _ in range(cols)] for _ in range(rows)]
    return 'lists', pre, 'transpose(%s, R)' % txt(T([T(row) for row in M])), T([T([M[a][b] for a in range(rows)]) for b in range(cols)])


def assoc_history(rng, pre, txt):
    keys = [elem(rng, 0) for _ in range(rng.randint(1, 12))]
    model = []      # list of (key, value) kept sorted
    goals = []
    cur = 'A0'
    if rng.random() < 0.3:
        init = [(k, mkint(100 + j)) for j, k in enumerate(std_sort(keys[:5]))]
        goals.append('list_to_assoc(%s, A0)' % txt(T([mkc('-', k, v) for k, v in init])))
        model = list(init)
    else:
        goals.append('empty_assoc(A0)')
    outs = []
    exp = []
    n = 0
    for step in range(rng.randint(1, 25)):
        k = rng.choice(keys)
        op = rng.choice(['put', 'put', 'put', 'get', 'del', 'min', 'max', 'delmin'])
        idx = next((j for j, (kk, _) in enumerate(model) if tcmp(kk, k) == 0), None)
        n += 1
        nxt = 'A%d' % n
        if op == 'put':
            v = mkint(step)
            goals.append('put_assoc(%s, %s, %s, %s)' % (txt(k), cur, txt(v), nxt))
            if idx is None:
                model.append((k, v))
                import functools
                model.sort(key=functools.cmp_to_key(lambda a, b: tcmp(a[0], b[0])))
            else:
                model[idx] = (model[idx][0], v)
            cur = nxt
        elif op == 'get':
            o = 'O%d' % n
            goals.append('( get_assoc(%s, %s, V%d) -> %s = found(V%d) ; %s = none )' % (txt(k), cur, n, o, n, o))
            outs.append(o)
            exp.append(mkc('found', model[idx][1]) if idx is not None else mkatom('none'))
        elif op == 'del':
            o = 'O%d' % n
            goals.append('( del_assoc(%s, %s, V%d, %s) -> %s = deleted(V%d) ; %s = none, %s = %s )' % (txt(k), cur, n, nxt, o, n, o, nxt, cur))
            outs.append(o)
            if idx is not None:
                exp.append(mkc('deleted', model[idx][1]))
                model.pop(idx)
            else:
                exp.append(mkatom('none'))
            cur = nxt
        elif op in ('min', 'max'):
            o = 'O%d' % n
            goals.append('( %s_assoc(%s, K%d, V%d) -> %s = K%d-V%d ; %s = none )' % (op, cur, n, n, o, n, n, o))
            outs.append(o)
            if model:
                kv = model[0] if op == 'min' else model[-1]
                exp.append(mkc('-', kv[0], kv[1]))
            else:
                exp.append(mkatom('none'))
        else:
            o = 'O%d' % n
            goals.append('( del_min_assoc(%s, K%d, V%d, %s) -> %s = K%d-V%d ; %s = none, %s = %s )' % (cur, n, n, nxt, o, n, n, o, nxt, cur))
            outs.append(o)
            if model:
                exp.append(mkc('-', model[0][0], model[0][1]))
                model.pop(0)
            else:
                exp.append(mkatom('none'))
            cur = nxt
    goals.append('assoc_to_list(%s, L), assoc_to_keys(%s, Ks), assoc_to_values(%s, Vs), ( is_assoc(%s) -> IA = y ; IA = n )' % (cur, cur, cur, cur))
    goals.append('R = r([%s], L, Ks, Vs, IA)' % ','.join(outs))
    expected = mkc('r', T(exp), T([mkc('-', k, v) for k, v in model]), T([k for k, _ in model]), T([v for _, v in model]), mkatom('y'))
    return 'assoc', pre, ', '.join(goals), expected


HELPER = """
msort_(L, S) :- pairs_keys_values(P, L, L), keysort(P, SP), pairs_values(SP, S).
"""


def shard(ctx):
    rec = ctx.rec
    rng = ctx.rng
    w = ctx.worker()
    w.use_modules(['lists', 'ordsets', 'assoc', 'pairs'], extra_jobs=[{'op': 'load', 'module': 'user', 'text': HELPER}])
    n = ctx.params['n']
    seen = set()
    for i in range(n):
        st, pre, goal, expected = gen_case(rng, i + ctx.shard)
        full = ''.join(p + ', ' for p in pre) + goal
        if full in seen:
            continue
        seen.add(full)
        rec.case(st, full)
        o = arith.run_goal(w, full, var='R', timeout=30)
        rec.info['calls_observed'] += 1
        if o[0] == 'timeout':
            rec.inconc('timeout')
            continue
        if o[0] == 'val' and rename_canonical(o[1]) == rename_canonical(expected):
            if len(rec.samples) < 6 and i % 41 == 0:
                rec.sample({'goal': full[:600], 'observed': show(o[1])[:300]})
            continue
        sig = {'kind': 'wrong_result' if o[0] == 'val' else o[0], 'stratum': st, 'pred': goal.split('(')[0].strip('( ')}
        if o[0] == 'err':
            sig['error'] = show(o[1])[:50].split('(')[0] + '(' + (show(o[1]).split('(')[1].split(',')[0] if '(' in show(o[1]) else '')
            e = o[1]
            if e[0] == 'c' and e[1] == 'type_error' and e[2][0] == ('a', 'list') and e[2][1][0] == 'l':
                items = e[2][1][1]
                one = lambda x: x[0] == 'a' and len(x[1]) == 1
                # the culprit is the (proper) input list itself and it starts with one-char atoms followed by something else
                sig['culprit'] = 'proper list with a one-char-atom prefix' if (e[2][1][2] == NIL and one(items[0]) and not all(one(x) for x in items)) else 'other'
        arith.panic_sig(sig, o)
        rec.violation(sig, {'goal': full, 'expected': show(expected), 'observed': arith.show_obs(o),
                            'jobs': [{'op': 'raw', 'query': 'use_module(library(lists)), use_module(library(ordsets)), use_module(library(assoc)), use_module(library(pairs)).'},
                                     {'op': 'load', 'module': 'user', 'text': HELPER}, {'op': 'run', 'goal': full + ' .', 'limit': 2, 'pred': 'runr'}]})
