"""C23 Term construction and inspection builtins match a term model.

Oracle: reference term model (Python) next to the engine for functor/3, arg/3, =../2,
copy_term/2, term_variables/2, ground/1, subsumes_term/2, plus the invariant that
inspection leaves the inspected term unchanged."""
from .. import refterm, arith
from ..terms import (mkint, mkfloat, mkc, mkatom, mklist, mkvar, mkstr, NIL, to_text, to_text_varied, show, rename_canonical,
                     term_vars, subst)
from ..gen import rand_term, rand_int

ID = 'C23'
LEVEL = 'exploration'
RULE = ('terms up to ~40 nodes with heavy variable sharing, strings / partial strings inside structures, boxed-small, bignum and '
        'rational leaves, lists and partial lists; for each term: functor/3 (decompose, construct incl. arity 0 and atomic names, '
        'ISO error cases), arg/3 (index bound, out of range, ISO errors incl. unbound index), =../2 (both directions), copy_term/2 '
        '(variant, fresh variables, sharing preserved, original unchanged), term_variables/2 (depth-first left-to-right, no '
        'duplicates), ground/1, subsumes_term/2 (vs one-way matching model; leaves no bindings). distinct = distinct goals; '
        'non-trivial = term is compound or a variable')
PARAMS = {'quick': {'n': 5000}, 'thorough': {'n': 200000}}
MIN_EVAL = {'quick': 40000, 'thorough': 2000000}
STRATA = ['functor-decompose', 'functor-construct', 'functor-error', 'arg-bound', 'arg-errors', 'univ-decompose', 'univ-construct',
          'copy_term', 'copy_term-bound-after', 'term_variables', 'ground', 'subsumes_term']
ASSUMPTIONS = ['attributed variables are not generated here (their copy semantics belong to C26)',
               'only the ISO error cases listed in the rule are asserted']


def tm(rng, depth=3, nv=4):
    return rand_term(rng, depth, nv, strings=True, floats=True)


def as_compound(t):
    if t[0] == 'c':
        return t[1], list(t[2])
    if t[0] == 'l':
        n, a = refterm._as_compound(t)
        return n, list(a)
    return None


def shard(ctx):
    rec = ctx.rec
    rng = ctx.rng
    w = ctx.worker()
    w.use_modules(['lists'])
    n = ctx.params['n']
    seen = set()
    for i in range(n):
        for st, pre, goal, check in gen_cases(rng, i + ctx.shard):
            full = ''.join(p + ', ' for p in pre) + goal
            if full in seen:
                continue
            seen.add(full)
            rec.case(st, full)
            o = arith.run_goal(w, full, var='R', timeout=20)
            rec.info['calls_observed'] += 1
            if o[0] == 'timeout':
                rec.inconc('timeout')
                continue
            why = check(o)
            if why is None:
                if len(rec.samples) < 6 and i % 53 == 0:
                    rec.sample({'goal': full[:500], 'observed': arith.show_obs(o)[:300]})
                continue
            sig = {'kind': why if isinstance(why, str) else 'wrong', 'stratum': st}
            arith.panic_sig(sig, o)
            rec.violation(sig, {'goal': full, 'why': why, 'observed': arith.show_obs(o),
                                'jobs': [{'op': 'run', 'goal': full + ' .', 'limit': 3, 'pred': 'runr'}]})


def want_val(expected):
    ec = rename_canonical(expected)

    def check(o):
        if o[0] == 'val' and rename_canonical(o[1]) == ec:
            return None
        return 'wrong_result' if o[0] == 'val' else o[0]
    check.expected = expected
    return check


def want_error(formal_name, first=None):
    def check(o):
        if o[0] == 'err' and o[1][0] == 'c' and o[1][1] == formal_name and (first is None or o[1][2][0] == first):
            return None
        if o[0] == 'err' and o[1] == ('a', formal_name):
            return None
        return 'wrong_or_missing_error'
    return check


def gen_cases(rng, i):
    r = i % 11
    pre = []
    t = tm(rng)

    def txt(x):
        return to_text_varied(x, rng, pre)

    if r == 0:
        c = as_compound(t)
        if c:
            exp = mkc('r', mkatom(c[0]), mkint(len(c[1])))
        else:
            if t[0] == 'v':
                return
            exp = mkc('r', t, mkint(0))
        yield 'functor-decompose', pre, 'functor(%s, N, A), R = r(N, A)' % txt(t), want_val(exp)
    elif r == 1:
        name = rng.choice([mkatom('f'), mkatom('[]'), mkatom('.'), mkatom('hello world'), mkint(5), mkfloat(1.5), mkatom('{}')])
        a = rng.choice([0, 0, 1, 2, 3, 7, 255]) if name[0] == 'a' else 0
        if a == 0:
            exp = name
        elif name[1] == '.' and a == 2:
            exp = mklist([mkvar(0)], mkvar(1))
        else:
            exp = mkc(name[1], *[mkvar(j) for j in range(a)])
        yield 'functor-construct', pre, 'functor(R, %s, %d)' % (txt(name), a), want_val(exp)
    elif r == 2:
        k = rng.randrange(5)
        if k == 0:
            yield 'functor-error', pre, 'functor(R, _, 2)', want_error('instantiation_error')
        elif k == 1:
            yield 'functor-error', pre, 'functor(R, foo, -1)', want_error('domain_error', ('a', 'not_less_than_zero'))
        elif k == 2:
            yield 'functor-error', pre, 'functor(R, foo, a)', want_error('type_error', ('a', 'integer'))
        elif k == 3:
            yield 'functor-error', pre, 'functor(R, foo(a), 1)', want_error('type_error', ('a', 'atomic'))
        else:
            yield 'functor-error', pre, 'functor(R, foo, _)', want_error('instantiation_error')
    elif r == 3:
        c = as_compound(t)
        if not c or not c[1]:
            t = mkc('f', tm(rng, 2), tm(rng, 2), tm(rng, 1))
            c = as_compound(t)
        k = rng.randint(0, len(c[1]) + 1)
        if 1 <= k <= len(c[1]):
            exp = mkc('r', c[1][k - 1], t)
        else:
            exp = mkatom('none')
        yield 'arg-bound', pre, 'T = %s, ( arg(%d, T, A) -> R = r(A, T) ; R = none )' % (txt(t), k), want_val(exp)
    elif r == 4:
        # ISO 8.5.2.3: the index must be instantiated (no enumeration mode in this system)
        k = rng.randrange(4)
        if k == 0:
            yield 'arg-errors', pre, 'arg(_, %s, R)' % txt(mkc('f', tm(rng, 1))), want_error('instantiation_error')
        elif k == 1:
            yield 'arg-errors', pre, 'arg(-1, f(a), R)', want_error('domain_error', ('a', 'not_less_than_zero'))
        elif k == 2:
            yield 'arg-errors', pre, 'arg(a, f(a), R)', want_error('type_error', ('a', 'integer'))
        else:
            yield 'arg-errors', pre, 'arg(1, %s, R)' % rng.choice(['foo', '3', '1.5']), want_error('type_error', ('a', 'compound'))
    elif r == 5:
        c = as_compound(t)
        if c:
            exp = mklist([mkatom(c[0])] + c[1])
        elif t[0] == 'v':
            return
        else:
            exp = mklist([t])
        yield 'univ-decompose', pre, '%s =.. R' % txt(t), want_val(exp)
    elif r == 6:
        name = rng.choice(['f', 'g', '.', '[]', 'foo bar', '-'])
        args = [tm(rng, 2) for _ in range(rng.randint(0, 4))]
        if not args:
            exp = mkatom(name)
        elif name == '.' and len(args) == 2:
            exp = mklist([args[0]], args[1])
        else:
            exp = mkc(name, *args)
        yield 'univ-construct', pre, 'R =.. %s' % txt(mklist([mkatom(name)] + args)), want_val(exp)
        num = rng.choice([mkint(7), mkfloat(2.5), mkint(2 ** 70)])
        yield 'univ-construct', [], 'R =.. [%s]' % to_text(num), want_val(num)
    elif r == 7:
        yield 'copy_term', pre, 'T = %s, copy_term(T, C), R = r(T, C)' % txt(t), check_copy(t)
        # variables bound *after* the term was built (difference-list style: a list tail that also occurs
        # elsewhere is instantiated later); both copy_term/2 and the findall/3 copy must still be variants
        vs = term_vars(t)
        if vs:
            binds = {v: rng.choice([mklist([mkint(2)]), NIL, mkc('h', mkint(2)), mklist([mkatom('x'), mkint(3)]), mkatom('k'), mkvar(7)])
                     for v in vs if rng.random() < 0.7}
            if binds:
                t2 = subst(t, binds)
                btxt = ', '.join('%s = %s' % (to_text(v), to_text(b)) for v, b in binds.items())
                yield 'copy_term-bound-after', pre, 'T = %s, %s, copy_term(T, C), R = r(T, C)' % (txt(t), btxt), check_copy(t2)
                yield 'copy_term-bound-after', pre, 'T = %s, %s, findall(T, true, [C]), R = r(T, C)' % (txt(t), btxt), check_copy(t2)
        # the same with a partial list whose tail variable is created in the list cell itself
        k = rng.randint(1, 3)
        items = [mkint(j) for j in range(k)]
        shape = rng.choice(['L-T', 'f(L, g(T))', 'f(T, L)', '[L, T]', 'f(L, T, L)'])
        later = rng.choice([mklist([mkint(9)]), NIL, mkc('h', mkint(2)), mklist([mkint(8), mkint(9)])])
        full = mklist(items, later)
        exp = {'L-T': mkc('-', full, later), 'f(L, g(T))': mkc('f', full, mkc('g', later)), 'f(T, L)': mkc('f', later, full),
               '[L, T]': mklist([full, later]), 'f(L, T, L)': mkc('f', full, later, full)}[shape]
        goal = 'L = [%s|T], F = %s, T = %s, copy_term(F, C), R = r(F, C)' % (','.join(str(j) for j in range(k)), shape, to_text(later))
        yield 'copy_term-bound-after', [], goal, check_copy(exp)
    elif r == 8:
        yield 'term_variables', pre, 'T = %s, term_variables(T, Vs), R = r(T, Vs)' % txt(t), check_tv(t)
    elif r == 9:
        g = not term_vars(t)
        yield 'ground', pre, 'T = %s, ( ground(T) -> G = y ; G = n ), R = r(G, T)' % txt(t), want_val(mkc('r', mkatom('y' if g else 'n'), t))
    else:
        a = tm(rng, 2, 3)
        if rng.random() < 0.5:
            # an instance of a (so that it is subsumed), possibly sharing variables
            vs = term_vars(a)
            m = {v: rng.choice([tm(rng, 1, 3), mkatom('k'), mkvar(7)]) for v in vs if rng.random() < 0.7}
            b = subst(a, m)
        else:
            b = tm(rng, 2, 3)
        s = refterm.subsumes(a, b)
        yield 'subsumes_term', pre, 'G = %s, S = %s, ( subsumes_term(G, S) -> B = y ; B = n ), R = r(B, G, S)' % (txt(a), txt(b)), \
            want_val(mkc('r', mkatom('y' if s else 'n'), a, b))


def check_arg_enum(c, t):
    def check(o):
        if o[0] != 'val':
            return o[0]
        exp = mkc('r', mklist([mkc('-', mkint(j + 1), a) for j, a in enumerate(c[1])]), t)
        # findall copies: each argument is a fresh variant; compare argument-wise up to renaming
        got = o[1]
        if got[0] != 'c' or got[1] != 'r':
            return 'garbled'
        L, T2 = got[2]
        if rename_canonical(T2) != rename_canonical(t):
            return 'original_changed'
        items = [] if L == NIL else list(L[1])
        if len(items) != len(c[1]):
            return 'wrong_count'
        for j, it in enumerate(items):
            if it[0] != 'c' or it[1] != '-' or it[2][0] != mkint(j + 1):
                return 'wrong_index_order'
            if rename_canonical(it[2][1]) != rename_canonical(c[1][j]):
                return 'wrong_argument'
        return None
    return check


def check_copy(t):
    def check(o):
        if o[0] != 'val':
            return o[0]
        got = o[1]
        if got[0] != 'c' or got[1] != 'r':
            return 'garbled'
        T, C = got[2]
        if rename_canonical(T) != rename_canonical(t):
            return 'original_changed'
        if rename_canonical(C) != rename_canonical(t):
            return 'copy_not_a_variant'
        if set(term_vars(T)) & set(term_vars(C)):
            return 'copy_shares_variables'
        return None
    return check


def check_tv(t):
    def check(o):
        if o[0] != 'val':
            return o[0]
        got = o[1]
        if got[0] != 'c' or got[1] != 'r':
            return 'garbled'
        T, Vs = got[2]
        if rename_canonical(T) != rename_canonical(t):
            return 'original_changed'
        exp = term_vars(T)
        items = [] if Vs == NIL else (list(Vs[1]) if Vs[0] == 'l' and Vs[2] == NIL else None)
        if items is None:
            return 'not_a_list'
        if items != exp:
            return 'wrong_variable_list'
        return None
    return check
