"""C18 Text decoding does not depend on how input arrives.

Two monitors.  (a) In-process (harness binary chunkread, feature verif re-exports CharReader): random
byte strings (valid UTF-8 of all widths, lone continuation bytes, truncated, overlong and surrogate
sequences, bytes F5-FF, sequences cut off by the end, strings across the 8 KiB read size) are
delivered through a reader that returns prescribed chunk sizes, under random interleavings of
peek_char / read_char / put_back_char; every result is compared with a reference decoder that sees
the whole string; panics are caught.  (b) Through the engine: the same bytes are written to the
machine's input channel once in one piece and once in random pieces; the observations of
peek_char/2 + get_char/2 (and of read_term/3 for valid texts) must be identical, and for valid
UTF-8 equal to the characters of the text."""
import json
import subprocess

from .. import arith
from ..terms import mkint, mkatom, mklist, mkc, NIL, show

ID = 'C18'
LEVEL = 'exploration'
RULE = ('in-process: byte strings of length 0-80 and 8180-8210 mixing 1-4 byte characters with invalid sequences; chunkings: all 1 byte, 1-3, 1-9, '
        'mixed with 8192, one piece; operations peek / read / put back the last character read (3 per byte); engine: texts of 1-30 items '
        'written to the input channel in one piece and in 1-5 byte pieces, read with peek_char+get_char until end_of_file (bounded) or '
        'with read_term/3. distinct = distinct (bytes, chunking, operations); non-trivial = a multi-byte sequence is split by a chunk boundary')
PARAMS = {'quick': {'cases': 3000, 'engine': 16}, 'thorough': {'cases': 300000, 'engine': 3000}}
MIN_EVAL = {'quick': 500000, 'thorough': 30000000}
STRATA = ['in-process-operations', 'in-process-cases', 'invalid-utf8', 'truncated-at-end', 'over-8k', 'engine-chars', 'engine-invalid', 'engine-read_term']
ASSUMPTIONS = ['an invalid sequence is the maximal invalid prefix that std::str::from_utf8 reports at that position; a sequence cut off by the end of '
               'the input is reported as one invalid sequence',
               'put_back_char is only used for the character read last (what the lexer does)',
               'through the engine only independence from the chunking is asserted for invalid input (which error term is raised is not specified)']

HELPERS = r"""
c18_items(0, []) :- !.
c18_items(N, [I|Is]) :- c18_item(I), ( I == end_of_file-end_of_file -> Is = [] ; N1 is N - 1, c18_items(N1, Is) ).
c18_item(I) :- catch(( peek_char(user_input, P), get_char(user_input, C), I = P-C ), error(E, _), I = err(E)).
c18_terms(0, []) :- !.
c18_terms(N, [T|Ts]) :- catch(read_term(user_input, T, []), error(E, _), T = err(E)), ( T == end_of_file -> Ts = [] ; N1 is N - 1, c18_terms(N1, Ts) ).
"""

CHARS = ['a', 'z', ' ', 'é', 'ß', '€', '→', '𝄞', '😀']
BAD = [b'\x80', b'\xbf', b'\xc3', b'\xe2\x82', b'\xf0\x9d\x84', b'\xc0\x80', b'\xed\xa0\x80', b'\xff', b'\xf5']


def shard(ctx):
    rec = ctx.rec
    rng = ctx.rng
    # ---- (a) in-process
    seed = ctx.seed * 1000 + ctx.shard
    n = ctx.params['cases']
    try:
        p = subprocess.run([ctx.bins['chunkread'], str(seed), str(n)], stdout=subprocess.PIPE, stderr=subprocess.PIPE, timeout=3600)
        d = json.loads(p.stdout.decode())
    except subprocess.TimeoutExpired:
        rec.inconc('chunkread_timeout')
        d = None
    except Exception as e:
        rec.errors.append('chunkread: %r' % (e,))
        d = None
    if d:
        rec.case('in-process-operations', None, n=d['ops'])
        rec.case('in-process-cases', None, n=d['cases'])
        rec.case('invalid-utf8', None, n=d['cases_with_invalid_utf8'])
        rec.case('truncated-at-end', None, n=d['cases_truncated_at_end'])
        rec.case('over-8k', None, n=d['cases_over_8k'])
        for k in ('chars', 'invalid_sequences_reported', 'putbacks', 'reads_of_source', 'multibyte_sequences_split_by_a_chunk_boundary'):
            rec.info[k] += d[k]
        for k in range(d['cases']):
            rec.distinct.add((seed, k))
        for v in d['violations']:
            at = v['at'].replace('/repo/', '')
            if '/registry/' in at:
                at = 'smallvec:' + at.rsplit('/', 1)[-1]
            sig = {'kind': v['kind'], 'at': at, 'truncated_at_end': v['truncated_at_end']}
            rec.violation(sig, {'detail': v['detail'], 'bytes_hex': v['full_bytes'] or ('...' + v['bytes']), 'length': v['len'], 'chunks': v['chunks'], 'operations': v['ops'],
                                'replay_cmd': '%s --replay %s %s %s' % ('.target/rel/release/chunkread', v['full_bytes'], v['chunks'], v['ops']) if v['full_bytes'] else
                                '.target/rel/release/chunkread %d %d' % (seed, n)})
    # ---- (b) through the engine
    w = ctx.worker()
    setup = [{'op': 'load', 'module': 'user', 'text': HELPERS}]
    for i in range(ctx.params['engine']):
        mode = rng.choice(['chars', 'chars', 'invalid', 'terms'])
        if mode == 'terms':
            items = []
            for _ in range(rng.randint(1, 6)):
                name = ''.join(rng.choice(['a', 'b', 'é', '€', '𝄞']) for _ in range(rng.randint(1, 4)))
                items.append(rng.choice(["'%s'", "f('%s')", '"%s"', "['%s', x]"]) % name + rng.choice(['.\n', '. ', '.\n\n']))
            data = ''.join(items).encode()
            goal = 'c18_terms(%d, R)' % (len(items) + 2)
        else:
            parts = []
            for _ in range(rng.randint(1, 30)):
                if mode == 'invalid' and rng.random() < 0.25:
                    parts.append(rng.choice(BAD))
                else:
                    parts.append(rng.choice(CHARS).encode())
            data = b''.join(parts)
            goal = 'c18_items(%d, R)' % (len(data) + 3)
        obs = []
        chunkings = [[len(data)]]
        sizes = []
        tot = 0
        while tot < len(data):
            c = rng.randint(1, rng.choice([1, 2, 5]))
            sizes.append(c)
            tot += c
        chunkings.append(sizes)
        jobs_all = []
        for sizes in chunkings:
            w.job({'op': 'new'})
            w.setup(setup)
            jobs = [{'op': 'new'}] + setup
            pos = 0
            for c in sizes:
                piece = data[pos:pos + c]
                pos += c
                if piece:
                    j = {'op': 'stdin', 'bytes': list(piece)}
                    w.job(j)
                    jobs.append(j)
            w.job({'op': 'stdin_close'})
            jobs.append({'op': 'stdin_close'})
            o = arith.run_goal(w, goal, var='R', timeout=30)
            jobs.append({'op': 'run', 'goal': goal + ' .', 'limit': 2, 'pred': 'runr'})
            obs.append(o)
            jobs_all.append(jobs)
            if o[0] in ('timeout', 'died'):
                w = ctx.worker()
        st = {'chars': 'engine-chars', 'invalid': 'engine-invalid', 'terms': 'engine-read_term'}[mode]
        split = True
        rec.case(st, (data, tuple(chunkings[1])), nontrivial=split)
        why = None
        if any(o[0] != 'val' for o in obs):
            bad = next(o for o in obs if o[0] != 'val')
            why = 'run_' + bad[0]
        elif show(obs[0][1]) != show(obs[1][1]):
            why = 'observations_depend_on_chunking'
        elif mode == 'chars':
            text = data.decode()
            want = mklist([mkc('-', mkatom(ch), mkatom(ch)) for ch in text] + [mkc('-', mkatom('end_of_file'), mkatom('end_of_file'))])
            if obs[0][1] != want:
                why = 'characters_differ_from_utf8_decoding'
        if why:
            sig = {'kind': why, 'mode': mode}
            for o in obs:
                arith.panic_sig(sig, o)
            rec.violation(sig, {'bytes_hex': data.hex(), 'chunk_sizes': chunkings[1], 'one_piece': arith.show_obs(obs[0])[:400], 'in_pieces': arith.show_obs(obs[1])[:400],
                                'jobs': jobs_all[1]})
        elif len(rec.samples) < 3 and i % 19 == 0:
            rec.sample({'mode': mode, 'bytes_hex': data.hex()[:80], 'chunks': chunkings[1][:20], 'observed': arith.show_obs(obs[1])[:200]})
