"""Shared machinery for the arithmetic checks: run an expression through the engine in
several evaluation contexts and normalise what came back."""
from . import refnum
from .refnum import ArithError, Unmodelled, Approx, OneOf
from .terms import to_text, show, mkint
from .worker import WorkerDied, WorkerTimeout


def observe(res, var='X'):
    """('val', term) | ('err', formal) | ('panic', info) | ('other', text)"""
    if res.bad is not None:
        return ('unparsable', repr(res.bad)[:300])
    if isinstance(res.end, tuple):
        if res.end[0] == 'exception':
            return ('err', res.formal())
        if res.end[0] == 'panic':
            return ('panic', res.end[1])
        return ('other', repr(res.end)[:200])
    if len(res.sols) == 1 and var in res.sols[0][0] and res.end == 'exhausted':
        return ('val', res.sols[0][0][var])
    return ('other', 'sols=%d end=%r' % (len(res.sols), res.end))


def run_goal(w, goal, var='X', timeout=None):
    try:
        return observe(w.run(goal, limit=5, timeout=timeout, only_r=(var == 'R')), var)
    except WorkerDied as e:
        return ('died', {'status': e.status})
    except WorkerTimeout:
        return ('timeout', None)


def model_num(expr):
    """number | Approx | OneOf | ArithError instance; raises Unmodelled"""
    try:
        return refnum.eval_num(expr)
    except ArithError as e:
        return e
    except (OverflowError, ZeroDivisionError, ValueError) as e:
        raise Unmodelled('python: %r' % (e,))


def judge_num(model, obs):
    """None if the observation agrees with the model, else a short kind. Also returns ulps."""
    if isinstance(model, ArithError):
        if obs[0] == 'err' and obs[1] in model.formals:
            return None, 0
        if obs[0] == 'err':
            return 'wrong_error', None
        if obs[0] == 'val':
            return 'missing_error', None
        return obs[0], None
    if obs[0] == 'val':
        ok, u = refnum.result_matches(model, obs[1])
        return (None if ok else 'wrong_value'), u
    if obs[0] == 'err':
        return 'unexpected_error', None
    return obs[0], None


def show_model(model):
    if isinstance(model, ArithError):
        return sorted(show(f) for f in model.formals)
    if isinstance(model, Approx):
        return 'approx(%r, %d ulp)' % (model.x, model.ulps)
    if isinstance(model, OneOf):
        return 'one of %r' % (model.xs,)
    if isinstance(model, float):
        return repr(model)
    return str(model)


def show_obs(obs):
    if obs[0] in ('val', 'err') and obs[1] is not None:
        return show(obs[1])
    return repr(obs)[:300]


def load_clauses(rec, w, text):
    """consults clauses into user; returns True when the load went through"""
    try:
        rep = w.job({'op': 'load', 'module': 'user', 'text': text})
    except (WorkerDied, WorkerTimeout) as e:
        rec.violation({'kind': 'died_at_load'}, {'jobs': [{'op': 'load', 'module': 'user', 'text': text}], 'observed': repr(e)})
        return False
    if rep.get('panic'):
        rec.violation({'kind': 'panic_at_load', 'file': rep['panic'].get('file', '').replace('/repo/', ''),
                       'line': rep['panic'].get('line')},
                      {'jobs': [{'op': 'load', 'module': 'user', 'text': text}], 'observed': rep['panic']})
        return False
    if 'error(' in rep.get('out', ''):
        rec.info['batch_load_failed'] += 1
        rec.sets['load_errors'].add(rep.get('out', '')[:200])
        return False
    return True


def panic_sig(sig, obs):
    if obs[0] == 'panic':
        f = obs[1].get('file', '')
        sig['file'] = f.replace('/repo/', '') if f.startswith('/repo/') else f.split('/')[-1]
        sig['line'] = obs[1].get('line')
        sig['msg'] = obs[1].get('msg', '')[:80]
    return sig
