"""Reference arithmetic: Python int / Fraction / float are the mathematical definition.

evaluate(term) -> number term ('i',n) | ('r',n,d) | ('f',bits)   or raises ArithError(set of acceptable formals)
"""
import math
from fractions import Fraction

from .terms import mkint, mkfloat, mkrat, mkc, mkatom, bits2f, f2bits

F64_MAX = 1.7976931348623157e308


class ArithError(Exception):
    def __init__(self, formals):
        if isinstance(formals, tuple) and formals and isinstance(formals[0], str):
            formals = [formals]      # a single term
        elif not isinstance(formals, (set, frozenset, list, tuple)):
            formals = [formals]
        self.formals = set(formals)
        Exception.__init__(self, repr(self.formals))


class Unmodelled(Exception):
    """the model deliberately gives no prediction for this case"""


def ev(kind):
    return mkc('evaluation_error', mkatom(kind))


ZERO_DIV = ev('zero_divisor')
UNDEFINED = ev('undefined')
FLOAT_OVERFLOW = ev('float_overflow')


def type_error(ty, culprit):
    return mkc('type_error', mkatom(ty), culprit)


def num_of(t):
    k = t[0]
    if k == 'i':
        return t[1]
    if k == 'r':
        return Fraction(t[1], t[2])
    if k == 'f':
        return bits2f(t[1])
    raise Unmodelled('not a number: %r' % (t,))


def term_of(x):
    if isinstance(x, bool):
        raise Unmodelled('bool')
    if isinstance(x, int):
        return mkint(x)
    if isinstance(x, Fraction):
        return mkrat(x.numerator, x.denominator)
    if isinstance(x, float):
        if math.isnan(x) or math.isinf(x):
            raise Unmodelled('non-finite')
        return mkfloat(x)
    raise Unmodelled(repr(x))


def trunc_div(a, b):
    q = abs(a) // abs(b)
    return q if (a >= 0) == (b >= 0) else -q


def to_float(x):
    """int/Fraction -> correctly rounded double, or ArithError(float_overflow)"""
    if isinstance(x, float):
        return x
    try:
        f = float(x)
    except OverflowError:
        raise ArithError(FLOAT_OVERFLOW)
    if math.isinf(f):
        raise ArithError(FLOAT_OVERFLOW)
    return f


def check_float(f):
    if math.isnan(f):
        raise ArithError(UNDEFINED)
    if math.isinf(f):
        raise ArithError(FLOAT_OVERFLOW)
    return f


# ---------------------------------------------------------------- integer functors (C01)

def int_binop(op, a, b, ta, tb):
    if op == '+':
        return a + b
    if op == '-':
        return a - b
    if op == '*':
        return a * b
    if op == '//':
        if b == 0:
            raise ArithError(ZERO_DIV)
        return trunc_div(a, b)
    if op == 'div':
        if b == 0:
            raise ArithError(ZERO_DIV)
        return a // b
    if op == 'mod':
        if b == 0:
            raise ArithError(ZERO_DIV)
        return a % b
    if op == 'rem':
        if b == 0:
            raise ArithError(ZERO_DIV)
        return a - b * trunc_div(a, b)
    if op == 'gcd':
        return math.gcd(a, b)
    if op == 'min':
        return min(a, b)
    if op == 'max':
        return max(a, b)
    if op == '^':
        if b >= 0:
            return a ** b
        if a == 1:
            return 1
        if a == -1:
            return 1 if b % 2 == 0 else -1
        if a == 0:
            raise ArithError([UNDEFINED, ZERO_DIV])
        raise ArithError(type_error('float', ta))
    if op == '<<':
        return a << b if b >= 0 else a >> (-b)
    if op == '>>':
        return a >> b if b >= 0 else a << (-b)
    if op == '/\\':
        return a & b
    if op == '\\/':
        return a | b
    if op == 'xor':
        return a ^ b
    raise Unmodelled(op)


def int_unop(op, a):
    if op == '-':
        return -a
    if op == '+':
        return a
    if op == 'abs':
        return abs(a)
    if op == 'sign':
        return (a > 0) - (a < 0)
    if op == '\\':
        return ~a
    raise Unmodelled(op)


INT_BINOPS = ['+', '-', '*', '//', 'div', 'mod', 'rem', 'gcd', 'min', 'max', '^', '<<', '>>', '/\\', '\\/', 'xor']
INT_UNOPS = ['-', '+', 'abs', 'sign', '\\']


def eval_int(t, size_cap_bits=200000):
    """Evaluates an expression tree whose leaves are integers, over the C01 functors.
    Returns Python int. Raises ArithError with the set of acceptable formals
    (any erroring subexpression's error is acceptable: evaluation order of operands
    is not prescribed), or Unmodelled when the result would be astronomically large."""
    k = t[0]
    if k == 'i':
        return t[1]
    if k != 'c':
        raise Unmodelled(repr(t))
    vals = []
    errs = set()
    for a in t[2]:
        try:
            vals.append(eval_int(a, size_cap_bits))
        except ArithError as e:
            errs |= e.formals
            vals.append(None)
    if errs:
        raise ArithError(errs)
    op = t[1]
    if len(vals) == 2:
        a, b = vals
        if op == '^' and b > 0 and abs(a) > 1 and a.bit_length() * b > size_cap_bits:
            raise Unmodelled('huge power')
        if (op == '<<' and b > size_cap_bits) or (op == '>>' and -b > size_cap_bits):
            if a != 0:
                raise Unmodelled('huge shift')
        return int_binop(op, a, b, mkint(a), mkint(b))
    if len(vals) == 1:
        return int_unop(op, vals[0])
    raise Unmodelled(op)


# ---------------------------------------------------------------- general evaluation (C02, C03, C04)

TRANSCENDENTAL = {'exp', 'log', 'sin', 'cos', 'tan', 'asin', 'acos', 'atan', 'atan2', '**', '^'}


class Approx:
    """a float result for which IEEE-754 does not mandate correct rounding: the
    engine may differ from the reference by at most `ulps`."""
    def __init__(self, x, ulps=1):
        self.x = x
        self.ulps = ulps


class OneOf:
    """any of several acceptable exact results"""
    def __init__(self, xs):
        self.xs = list(xs)


def _ff(fn, *xs):
    try:
        r = fn(*xs)
    except OverflowError:
        raise ArithError(FLOAT_OVERFLOW)
    except ValueError:
        raise ArithError(UNDEFINED)
    return check_float(r)


def round_half_away(x):
    r = Fraction(x)
    if r >= 0:
        return math.floor(r + Fraction(1, 2))
    return -math.floor(-r + Fraction(1, 2))


def is_zero(x):
    return x == 0


def num_cmp(a, b):
    """C04 semantics: exact between ints/rationals; via double when a float is involved.
    returns -1/0/1; raises ArithError(float_overflow) when promotion overflows"""
    if isinstance(a, float) or isinstance(b, float):
        fa, fb = to_float(a), to_float(b)
        return (fa > fb) - (fa < fb)
    return (a > b) - (a < b)


def apply_num(op, vals):
    """vals: Python numbers (int | Fraction | float). Returns number | Approx | OneOf."""
    n = len(vals)
    anyf = any(isinstance(v, float) for v in vals)
    if n == 1:
        a = vals[0]
        if op == '-':
            return -a
        if op == '+':
            return a
        if op == 'abs':
            return abs(a)
        if op == 'sign':
            if isinstance(a, float):
                return math.copysign(1.0, a) if a != 0 else 0.0
            return (a > 0) - (a < 0)
        if op == 'float':
            return to_float(a)
        if op == 'float_integer_part':
            return float(math.trunc(to_float(a)))
        if op == 'float_fractional_part':
            f = to_float(a)
            return math.modf(f)[0]
        if op in ('truncate', 'round', 'ceiling', 'floor'):
            if isinstance(a, int):
                return a
            if op == 'truncate':
                return math.trunc(a)
            if op == 'floor':
                return math.floor(a)
            if op == 'ceiling':
                return math.ceil(a)
            return round_half_away(a)
        if op in ('sqrt', 'log') and a < 0:
            # undefined; an operand too large to promote may report the overflow instead
            errs = [UNDEFINED]
            try:
                to_float(a)
            except ArithError:
                errs.append(FLOAT_OVERFLOW)
            raise ArithError(errs)
        if op == 'sqrt':
            f = to_float(a)
            return _ff(math.sqrt, f)
        if op == 'log':
            f = to_float(a)
            if f == 0:
                raise ArithError([UNDEFINED, FLOAT_OVERFLOW])
            return Approx(_ff(math.log, f))
        if op in ('asin', 'acos'):
            f = to_float(a)
            if abs(f) > 1:
                raise ArithError(UNDEFINED)
            return Approx(_ff(getattr(math, op), f))
        if op in ('exp', 'sin', 'cos', 'tan', 'atan'):
            f = to_float(a)
            return Approx(_ff(getattr(math, op), f))
        if op == '\\':
            if isinstance(a, int):
                return ~a
            raise Unmodelled('\\ on non-int')
        raise Unmodelled(op)
    a, b = vals
    if op in ('+', '-', '*'):
        if anyf:
            fa, fb = to_float(a), to_float(b)
            r = fa + fb if op == '+' else (fa - fb if op == '-' else fa * fb)
            return check_float(r)
        return a + b if op == '+' else (a - b if op == '-' else a * b)
    if op == '/':
        if is_zero(b):
            raise ArithError(ZERO_DIV)
        fa, fb = to_float(a), to_float(b)
        if fb == 0:
            # a non-zero rational/integer never promotes to 0.0; fb == 0 only if b == 0
            raise ArithError(ZERO_DIV)
        r = check_float(fa / fb)
        if not anyf:
            exact = to_float(Fraction(a) / Fraction(b))
            if exact != r:
                return OneOf([r, exact])
        return r
    if op in ('**', '^'):
        if op == '^' and not anyf:
            if isinstance(a, int) and isinstance(b, int):
                return int_binop('^', a, b, mkint(a), mkint(b))
            raise Unmodelled('rational ^')
        fa, fb = to_float(a), to_float(b)
        if fa == 0 and fb < 0:
            raise ArithError([UNDEFINED, ZERO_DIV])
        if fa < 0 and fb != math.floor(fb):
            raise ArithError(UNDEFINED)
        return Approx(_ff(math.pow, fa, fb))
    if op == 'atan2':
        if is_zero(a) and is_zero(b):
            raise ArithError(UNDEFINED)
        return Approx(_ff(math.atan2, to_float(a), to_float(b)))
    if op in ('min', 'max'):
        c = num_cmp(a, b)
        if c == 0:
            if isinstance(a, float):
                return a
            if isinstance(b, float):
                return b
            return a
        if op == 'max':
            return a if c > 0 else b
        return a if c < 0 else b
    if op == 'rdiv':
        if anyf:
            raise Unmodelled('rdiv float')
        if is_zero(b):
            raise ArithError(ZERO_DIV)
        return Fraction(a) / Fraction(b)
    if isinstance(a, int) and isinstance(b, int):
        return int_binop(op, a, b, mkint(a), mkint(b))
    raise Unmodelled(op)


def eval_num(t):
    """Evaluates a tree with number leaves. Returns number | Approx | OneOf (only at the root:
    a non-exact intermediate makes the whole case Unmodelled unless the caller asked for ulps)."""
    k = t[0]
    if k in ('i', 'r', 'f'):
        return num_of(t)
    if k == 'a':
        if t[1] == 'pi':
            return math.pi
        if t[1] == 'e':
            return math.e
        if t[1] == 'epsilon':
            return 2.220446049250313e-16
        raise Unmodelled(t[1])
    if k != 'c':
        raise Unmodelled(repr(t))
    vals = []
    errs = set()
    for a in t[2]:
        try:
            v = eval_num(a)
            if isinstance(v, (Approx, OneOf)):
                raise Unmodelled('inexact intermediate')
            vals.append(v)
        except ArithError as e:
            errs |= e.formals
            vals.append(None)
    if errs:
        raise ArithError(errs)
    return apply_num(t[1], vals)


def ulp_distance(a, b):
    """distance in units in the last place between two finite doubles"""
    def key(x):
        bts = f2bits(x)
        return bts if bts < (1 << 63) else (1 << 63) - bts
    return abs(key(a) - key(b))


def result_matches(model, obs_term):
    """model: number | Approx | OneOf; obs_term: number term. -> (ok, ulps_off)"""
    if isinstance(model, OneOf):
        for m in model.xs:
            ok, u = result_matches(m, obs_term)
            if ok:
                return True, u
        return False, None
    if isinstance(model, Approx):
        if obs_term[0] != 'f':
            return False, None
        d = ulp_distance(model.x, bits2f(obs_term[1]))
        return d <= model.ulps, d
    if isinstance(model, float):
        if obs_term[0] != 'f':
            return False, None
        o = bits2f(obs_term[1])
        if model == 0 and o == 0:
            return True, 0      # the sign of zero is not observable through the printer
        return f2bits(model) == obs_term[1], 0
    try:
        return term_of(model) == obs_term, 0
    except Unmodelled:
        return False, None
