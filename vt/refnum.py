"""Reference arithmetic: Python int / Fraction / float are the mathematical definition.

evaluate(term) -> number term ('i',n) | ('r',n,d) | ('f',bits)   or raises ArithError(set of acceptable formals)
"""
import math
from fractions import Fraction

from .terms import mkint, mkfloat, mkrat, mkc, mkatom, bits2f, f2bits

F64_MAX = 1.7976931348623157e308


class ArithError(Exception):
    def __init__(self, formals):
        if isinstance(formals, tuple) and formals and isinstance(formals[0], str):
            formals = [formals]      # a single term
        elif not isinstance(formals, (set, frozenset, list, tuple)):
            formals = [formals]
        self.formals = set(formals)
        Exception.__init__(self, repr(self.formals))


class Unmodelled(Exception):
    """the model deliberately gives no prediction for this case"""


def ev(kind):
    return mkc('evaluation_error', mkatom(kind))


ZERO_DIV = ev('zero_divisor')
UNDEFINED = ev('undefined')
FLOAT_OVERFLOW = ev('float_overflow')


def type_error(ty, culprit):
    return mkc('type_error', mkatom(ty), culprit)


def num_of(t):
    k = t[0]
    if k == 'i':
        return t[1]
    if k == 'r':
        return Fraction(t[1], t[2])
    if k == 'f':
        return bits2f(t[1])
    raise Unmodelled('not a number: %r' % (t,))


def term_of(x):
    if isinstance(x, bool):
        raise Unmodelled('bool')
    if isinstance(x, int):
        return mkint(x)
    if isinstance(x, Fraction):
        return mkrat(x.numerator, x.denominator)
    if isinstance(x, float):
        if math.isnan(x) or math.isinf(x):
            raise Unmodelled('non-finite')
        return mkfloat(x)
    raise Unmodelled(repr(x))


def trunc_div(a, b):
    q = abs(a) // abs(b)
    return q if (a >= 0) == (b >= 0) else -q


def to_float(x):
    """int/Fraction -> correctly rounded double, or ArithError(float_overflow)"""
    if isinstance(x, float):
        return x
    try:
        f = float(x)
    except OverflowError:
        raise ArithError(FLOAT_OVERFLOW)
    if math.isinf(f):
        raise ArithError(FLOAT_OVERFLOW)
    return f


def check_float(f):
    if math.isnan(f):
        raise ArithError(UNDEFINED)
    if math.isinf(f):
        raise ArithError(FLOAT_OVERFLOW)
    return f


# ---------------------------------------------------------------- integer functors (C01)

def int_binop(op, a, b, ta, tb):
    if op == '+':
        return a + b
    if op == '-':
        return a - b
    if op == '*':
        return a * b
    if op == '//':
        if b == 0:
            raise ArithError(ZERO_DIV)
        return trunc_div(a, b)
    if op == 'div':
        if b == 0:
            raise ArithError(ZERO_DIV)
        return a // b
    if op == 'mod':
        if b == 0:
            raise ArithError(ZERO_DIV)
        return a % b
    if op == 'rem':
        if b == 0:
            raise ArithError(ZERO_DIV)
        return a - b * trunc_div(a, b)
    if op == 'gcd':
        return math.gcd(a, b)
    if op == 'min':
        return min(a, b)
    if op == 'max':
        return max(a, b)
    if op == '^':
        if b >= 0:
            return a ** b
        if a == 1:
            return 1
        if a == -1:
            return 1 if b % 2 == 0 else -1
        if a == 0:
            raise ArithError([UNDEFINED, ZERO_DIV])
        raise ArithError(type_error('float', ta))
    if op == '<<':
        return a << b if b >= 0 else a >> (-b)
    if op == '>>':
        return a >> b if b >= 0 else a << (-b)
    if op == '/\\':
        return a & b
    if op == '\\/':
        return a | b
    if op == 'xor':
        return a ^ b
    raise Unmodelled(op)


def int_unop(op, a):
    if op == '-':
        return -a
    if op == '+':
        return a
    if op == 'abs':
        return abs(a)
    if op == 'sign':
        return (a > 0) - (a < 0)
    if op == '\\':
        return ~a
    raise Unmodelled(op)


INT_BINOPS = ['+', '-', '*', '//', 'div', 'mod', 'rem', 'gcd', 'min', 'max', '^', '<<', '>>', '/\\', '\\/', 'xor']
INT_UNOPS = ['-', '+', 'abs', 'sign', '\\']


def eval_int(t, size_cap_bits=200000):
    """Evaluates an expression tree whose leaves are integers, over the C01 functors.
    Returns Python int. Raises ArithError with the set of acceptable formals
    (any erroring subexpression's error is acceptable: evaluation order of operands
    is not prescribed), or Unmodelled when the result would be astronomically large."""
    k = t[0]
    if k == 'i':
        return t[1]
    if k != 'c':
        raise Unmodelled(repr(t))
    vals = []
    errs = set()
    for a in t[2]:
        try:
            vals.append(eval_int(a, size_cap_bits))
        except ArithError as e:
            errs |= e.formals
            vals.append(None)
    if errs:
        raise ArithError(errs)
    op = t[1]
    if len(vals) == 2:
        a, b = vals
        if op == '^' and b > 0 and abs(a) > 1 and a.bit_length() * b > size_cap_bits:
            raise Unmodelled('huge power')
        if (op == '<<' and b > size_cap_bits) or (op == '>>' and -b > size_cap_bits):
            if a != 0:
                raise Unmodelled('huge shift')
        return int_binop(op, a, b, mkint(a), mkint(b))
    if len(vals) == 1:
        return int_unop(op, vals[0])
    raise Unmodelled(op)
