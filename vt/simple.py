"""Helper for checks of the shape: generate (goal, expectation) pairs, run, compare.

An expectation is one of
  ('val', term)                the goal binds R to exactly this term (up to variable renaming)
  ('err', name, first|None)    the goal raises error(Formal, _) with functor `name` (and first argument `first`)
  ('any_err',)                 the goal raises some error(_, _)
  ('check', fn)                fn(observation) -> None (ok) | short reason string
"""
from . import arith
from .terms import rename_canonical, show


def judge(exp, o):
    if exp[0] == 'val':
        if o[0] == 'val' and rename_canonical(o[1]) == rename_canonical(exp[1]):
            return None
        return 'wrong_result' if o[0] == 'val' else o[0]
    if exp[0] == 'err':
        if o[0] == 'err':
            f = o[1]
            name = f[1] if f[0] in 'ca' else None
            if name == exp[1] and (len(exp) < 3 or exp[2] is None or (f[0] == 'c' and f[2][0] == exp[2])):
                return None
            return 'wrong_error'
        return 'missing_error' if o[0] == 'val' else o[0]
    if exp[0] == 'any_err':
        return None if o[0] == 'err' else ('missing_error' if o[0] == 'val' else o[0])
    if exp[0] == 'check':
        return exp[1](o)
    raise ValueError(exp)


def show_exp(exp):
    if exp[0] == 'val':
        return show(exp[1])[:400]
    if exp[0] == 'err':
        return 'error(%s(%s...))' % (exp[1], show(exp[2]) if len(exp) > 2 and exp[2] else '')
    return exp[0]


def run_cases(ctx, w, cases, setup_query=None, setup_text=None, timeout=30, sample_every=61, pred_of=None):
    """cases: iterable of (stratum, goal_text, expectation[, extra signature dict])"""
    rec = ctx.rec
    seen = set()
    for i, case in enumerate(cases):
        st, goal, exp = case[0], case[1], case[2]
        extra = dict(case[3]) if len(case) > 3 and case[3] else None
        case_text = extra.pop('setup_text', None) if extra else None     # program text this case needs (for the replay file)
        if goal in seen:
            continue
        seen.add(goal)
        rec.case(st, goal)
        o = arith.run_goal(w, goal, var='R', timeout=timeout)
        rec.info['goals_observed'] += 1
        if o[0] == 'timeout':
            rec.inconc('timeout')
            continue
        why = judge(exp, o)
        if why is None:
            if len(rec.samples) < 6 and i % sample_every == 0:
                rec.sample({'goal': goal[:400], 'observed': arith.show_obs(o)[:300]})
            continue
        sig = {'kind': why, 'stratum': st}
        if pred_of:
            sig['pred'] = pred_of(goal)
        if extra:
            sig.update(extra)
        arith.panic_sig(sig, o)
        jobs = []
        if setup_query:
            jobs.append({'op': 'raw', 'query': setup_query})
        if setup_text:
            jobs.append({'op': 'load', 'module': 'user', 'text': setup_text})
        if case_text:
            jobs.append({'op': 'load', 'module': 'user', 'text': case_text})
        jobs.append({'op': 'run', 'goal': goal + ' .', 'limit': 3, 'pred': 'runr'})
        rec.violation(sig, {'goal': goal, 'expected': show_exp(exp), 'observed': arith.show_obs(o)[:500], 'jobs': jobs})
