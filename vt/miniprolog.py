"""A small reference interpreter for pure Prolog with cut, if-then-else, negation, disjunction
and a few builtins, used as the executable model of ISO SLD-resolution (C07) and as the
specification against which loading modes are compared (C08).

Terms use the tuple model of vt.terms.  A program is a dict (name, arity) -> list of clauses,
a clause is (head_args tuple, body) and a body is one of
    ('true',) ('fail',) ('call', name, args) ('and', [goals]) ('or', A, B) ('ite', C, T, E)
    ('not', G) ('cut',) ('unify', a, b) ('test', op, a, b)     op in == \\== @< @> @=< @>=
    ('is', var, expr) ('cmp', op, e1, e2)                       op in < > =< >= =:= =\\=
The interpreter is a generator of substitutions (leftmost goal, clauses in textual order, depth first)
with a step budget; exceeding the budget raises Budget (the case is then dropped, never judged)."""
from .terms import mkint, mkatom, NIL
from .refterm import compare as compare_std


class Budget(Exception):
    pass


class CutSignal(Exception):
    def __init__(self, frame):
        self.frame = frame


def walk(t, s):
    while t[0] == 'v' and t[1] in s:
        t = s[t[1]]
    return t


def resolve(t, s):
    t = walk(t, s)
    if t[0] == 'c':
        return ('c', t[1], tuple(resolve(a, s) for a in t[2]))
    if t[0] == 'l':
        items = [resolve(a, s) for a in t[1]]
        tail = resolve(t[2], s)
        if tail[0] == 'l':
            return ('l', tuple(items) + tuple(tail[1]), tail[2])
        return ('l', tuple(items), tail)
    return t


def _uncons(t):
    """list term -> (head, tail) or None"""
    if t[0] == 'l' and t[1]:
        rest = t[1][1:]
        return t[1][0], (('l', rest, t[2]) if rest else t[2])
    return None


def unify(a, b, s):
    """returns extended substitution or None (no occurs check, like the engine's default)"""
    stack = [(a, b)]
    s = dict(s)
    while stack:
        x, y = stack.pop()
        x, y = walk(x, s), walk(y, s)
        if x == y:
            continue
        if x[0] == 'v':
            s[x[1]] = y
            continue
        if y[0] == 'v':
            s[y[1]] = x
            continue
        if x[0] == 'l' or y[0] == 'l':
            ux, uy = _uncons(x), _uncons(y)
            if ux is None or uy is None:
                return None
            stack.append((ux[1], uy[1]))
            stack.append((ux[0], uy[0]))
            continue
        if x[0] == 'c' and y[0] == 'c':
            if x[1] != y[1] or len(x[2]) != len(y[2]):
                return None
            stack.extend(zip(x[2], y[2]))
            continue
        if x[0] in ('i', 'a', 'f', 'r') and x == y:
            continue
        return None
    return s


def _has_var(t):
    if t[0] == 'v':
        return True
    if t[0] == 'c':
        return any(_has_var(a) for a in t[2])
    if t[0] == 'l':
        return any(_has_var(a) for a in t[1]) or _has_var(t[2])
    return False


class Machine:
    def __init__(self, program, budget=200000):
        self.program = program
        self.budget = budget
        self.steps = 0
        self.fresh = 1000000

    def rename(self, t, m):
        if t[0] == 'v':
            if t[1] not in m:
                self.fresh += 1
                m[t[1]] = ('v', self.fresh)
            return m[t[1]]
        if t[0] == 'c':
            return ('c', t[1], tuple(self.rename(a, m) for a in t[2]))
        if t[0] == 'l':
            return ('l', tuple(self.rename(a, m) for a in t[1]), self.rename(t[2], m))
        return t

    def rename_body(self, b, m):
        k = b[0]
        if k in ('true', 'fail', 'cut'):
            return b
        if k == 'call':
            return ('call', b[1], tuple(self.rename(a, m) for a in b[2]))
        if k == 'and':
            return ('and', [self.rename_body(g, m) for g in b[1]])
        if k == 'or':
            return ('or', self.rename_body(b[1], m), self.rename_body(b[2], m))
        if k == 'ite':
            return ('ite', self.rename_body(b[1], m), self.rename_body(b[2], m), self.rename_body(b[3], m))
        if k == 'not':
            return ('not', self.rename_body(b[1], m))
        if k in ('unify',):
            return (k, self.rename(b[1], m), self.rename(b[2], m))
        if k in ('test', 'cmp'):
            return (k, b[1], self.rename(b[2], m), self.rename(b[3], m))
        if k == 'is':
            return (k, self.rename(b[1], m), self.rename(b[2], m))
        raise ValueError(b)

    def tick(self):
        self.steps += 1
        if self.steps > self.budget:
            raise Budget()

    def eval(self, e, s):
        e = walk(e, s)
        if e[0] == 'i':
            return e[1]
        if e[0] == 'c' and len(e[2]) == 2:
            a, b = self.eval(e[2][0], s), self.eval(e[2][1], s)
            if e[1] == '+':
                return a + b
            if e[1] == '-':
                return a - b
            if e[1] == '*':
                return a * b
        raise Budget()      # outside the modelled fragment: drop the case

    def solve(self, goal, s, frame):
        """generator of substitutions; `frame` identifies the clause activation a cut cuts to"""
        self.tick()
        k = goal[0]
        if k == 'true':
            yield s
        elif k == 'fail':
            return
        elif k == 'and':
            yield from self.solve_conj(goal[1], 0, s, frame)
        elif k == 'or':
            yield from self.solve(goal[1], s, frame)
            yield from self.solve(goal[2], s, frame)
        elif k == 'ite':
            # the condition is opaque to cut
            first = None
            for s1 in self.solve_opaque(goal[1], s):
                first = s1
                break
            if first is not None:
                yield from self.solve(goal[2], first, frame)
            else:
                yield from self.solve(goal[3], s, frame)
        elif k == 'not':
            for _ in self.solve_opaque(goal[1], s):
                return
            yield s
        elif k == 'cut':
            yield s
            raise CutSignal(frame)
        elif k == 'unify':
            s1 = unify(goal[1], goal[2], s)
            if s1 is not None:
                yield s1
        elif k == 'test':
            ta, tb = resolve(goal[2], s), resolve(goal[3], s)
            if goal[1] not in ('==', '\\==') and ta != tb and (_has_var(ta) or _has_var(tb)):
                raise Budget()      # the order of distinct unbound variables is implementation dependent
            c = (0 if ta == tb else 1) if goal[1] in ('==', '\\==') else compare_std(ta, tb)
            ok = {'==': c == 0, '\\==': c != 0, '@<': c < 0, '@>': c > 0, '@=<': c <= 0, '@>=': c >= 0}[goal[1]]
            if ok:
                yield s
        elif k == 'cmp':
            a, b = self.eval(goal[2], s), self.eval(goal[3], s)
            ok = {'<': a < b, '>': a > b, '=<': a <= b, '>=': a >= b, '=:=': a == b, '=\\=': a != b}[goal[1]]
            if ok:
                yield s
        elif k == 'is':
            v = self.eval(goal[2], s)
            s1 = unify(goal[1], mkint(v), s)
            if s1 is not None:
                yield s1
        elif k == 'call':
            yield from self.call(goal[1], goal[2], s)
        else:
            raise ValueError(goal)

    def solve_opaque(self, goal, s):
        """runs goal in its own cut barrier"""
        fr = object()
        try:
            yield from self.solve(goal, s, fr)
        except CutSignal as c:
            if c.frame is not fr:
                raise

    def solve_conj(self, goals, i, s, frame):
        if i == len(goals):
            yield s
            return
        for s1 in self.solve(goals[i], s, frame):
            yield from self.solve_conj(goals, i + 1, s1, frame)

    def call(self, name, args, s):
        clauses = self.program.get((name, len(args)))
        if clauses is None:
            raise Budget()      # unknown predicate: outside the model
        fr = object()
        try:
            for head, body in clauses:
                self.tick()
                m = {}
                h = tuple(self.rename(a, m) for a in head)
                s1 = s
                for x, y in zip(h, args):
                    s1 = unify(x, y, s1)
                    if s1 is None:
                        break
                if s1 is None:
                    continue
                yield from self.solve(self.rename_body(body, m), s1, fr)
        except CutSignal as c:
            if c.frame is not fr:
                raise

    def answers(self, goal, template, limit=200):
        """list of resolved template instances, in order"""
        out = []
        for s in self.solve_opaque(goal, {}):
            out.append(self.rename(resolve(template, s), {}))      # findall-style: every answer has its own variables
            if len(out) >= limit:
                break
        return out


# ------------------------------------------------------------------ program text

def term_text(t, to_text):
    return to_text(t)


def body_text(b, name_of, to_text):
    k = b[0]
    if k == 'true':
        return 'true'
    if k == 'fail':
        return 'fail'
    if k == 'cut':
        return '!'
    if k == 'call':
        n = name_of(b[1])
        return n if not b[2] else '%s(%s)' % (n, ', '.join(to_text(a) for a in b[2]))
    if k == 'and':
        return ', '.join(body_text(g, name_of, to_text) if g[0] != 'or' and g[0] != 'ite' else body_text(g, name_of, to_text) for g in b[1]) if b[1] else 'true'
    if k == 'or':
        return '( %s ; %s )' % (body_text(b[1], name_of, to_text), body_text(b[2], name_of, to_text))
    if k == 'ite':
        return '( %s -> %s ; %s )' % (body_text(b[1], name_of, to_text), body_text(b[2], name_of, to_text), body_text(b[3], name_of, to_text))
    if k == 'not':
        return '\\+ ( %s )' % body_text(b[1], name_of, to_text)
    if k == 'unify':
        return '%s = %s' % (to_text(b[1]), to_text(b[2]))
    if k in ('test', 'cmp'):
        return '%s %s %s' % (to_text(b[2]), b[1], to_text(b[3]))
    if k == 'is':
        return '%s is %s' % (to_text(b[1]), to_text(b[2]))
    raise ValueError(b)


def clause_text(name, head, body, name_of, to_text):
    n = name_of(name)
    h = n if not head else '%s(%s)' % (n, ', '.join(to_text(a) for a in head))
    if body == ('true',):
        return h
    return '%s :- %s' % (h, body_text(body, name_of, to_text))


def has(b, kind):
    if b[0] == kind:
        return True
    if b[0] == 'and':
        return any(has(g, kind) for g in b[1])
    if b[0] in ('or',):
        return has(b[1], kind) or has(b[2], kind)
    if b[0] == 'ite':
        return has(b[1], kind) or has(b[2], kind) or has(b[3], kind)
    if b[0] == 'not':
        return has(b[1], kind)
    return False
