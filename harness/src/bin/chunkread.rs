//! chunkread <seed> <cases>            random cases, JSON summary on stdout
//! chunkread --replay <hexbytes> <chunks,csv> <ops>
//!
//! Drives scryer_prolog's CharReader over a reader that delivers a byte string in prescribed
//! chunks, interleaving peek_char / read_char / put_back_char, and compares every result with a
//! reference UTF-8 decoder that sees the whole byte string at once.  A panic is caught and reported.
use scryer_prolog::verif::{BadUtf8Error, CharRead, CharReader};
use std::io::{self, Read};
use std::panic::{catch_unwind, AssertUnwindSafe};

struct Chunked {
    data: Vec<u8>,
    pos: usize,
    chunks: Vec<usize>,
    next: usize,
    reads: usize,
}

impl Read for Chunked {
    fn read(&mut self, buf: &mut [u8]) -> io::Result<usize> {
        self.reads += 1;
        let rest = self.data.len() - self.pos;
        if rest == 0 || buf.is_empty() {
            return Ok(0);
        }
        let want = if self.next < self.chunks.len() {
            self.chunks[self.next]
        } else {
            7
        };
        self.next += 1;
        let n = want.max(1).min(rest).min(buf.len());
        buf[..n].copy_from_slice(&self.data[self.pos..self.pos + n]);
        self.pos += n;
        Ok(n)
    }
}

struct Rng(u64);
impl Rng {
    fn next(&mut self) -> u64 {
        // splitmix64
        self.0 = self.0.wrapping_add(0x9E3779B97F4A7C15);
        let mut z = self.0;
        z = (z ^ (z >> 30)).wrapping_mul(0xBF58476D1CE4E5B9);
        z = (z ^ (z >> 27)).wrapping_mul(0x94D049BB133111EB);
        z ^ (z >> 31)
    }
    fn below(&mut self, n: u64) -> u64 {
        self.next() % n
    }
}

#[derive(Debug, Clone, PartialEq)]
enum Item {
    Char(char),
    Bad(Vec<u8>), // invalid sequence at this position
    End,
}

/// reference: what stands at `pos` of the whole byte string
fn reference(data: &[u8], pos: usize) -> Item {
    if pos >= data.len() {
        return Item::End;
    }
    let rest = &data[pos..];
    let win = &rest[..rest.len().min(4)];
    match std::str::from_utf8(win) {
        Ok(s) => Item::Char(s.chars().next().unwrap()),
        Err(e) => {
            if e.valid_up_to() > 0 {
                Item::Char(std::str::from_utf8(&win[..e.valid_up_to()]).unwrap().chars().next().unwrap())
            } else {
                match e.error_len() {
                    Some(n) => Item::Bad(win[..n].to_vec()),
                    None => Item::Bad(win.to_vec()), // truncated by the end of the data
                }
            }
        }
    }
}

fn observe(r: Option<io::Result<char>>) -> Result<Item, String> {
    match r {
        None => Ok(Item::End),
        Some(Ok(c)) => Ok(Item::Char(c)),
        Some(Err(e)) => match e.get_ref().and_then(|i| i.downcast_ref::<BadUtf8Error>()) {
            Some(b) => Ok(Item::Bad(b.bytes.clone())),
            None => Err(format!("other io error: {}", e)),
        },
    }
}

struct Outcome {
    ops: usize,
    chars: usize,
    bad: usize,
    putbacks: usize,
    reads: usize,
    split_chars: usize,
    violation: Option<String>,
}

fn run_case(data: &[u8], chunks: &[usize], ops: &[u8]) -> Outcome {
    let rd = Chunked { data: data.to_vec(), pos: 0, chunks: chunks.to_vec(), next: 0, reads: 0 };
    let mut cr = CharReader::new(rd);
    let mut pos = 0usize; // reference position
    let mut last: Option<char> = None; // last char read and not yet put back
    let mut out = Outcome { ops: 0, chars: 0, bad: 0, putbacks: 0, reads: 0, split_chars: 0, violation: None };
    // how many multi-byte characters straddle a chunk boundary (coverage figure)
    {
        let mut bounds = vec![];
        let mut p = 0usize;
        let mut i = 0usize;
        while p < data.len() {
            let n = if i < chunks.len() { chunks[i].max(1) } else { 7 };
            p += n;
            i += 1;
            bounds.push(p);
        }
        let mut q = 0usize;
        while q < data.len() {
            let len = match reference(data, q) {
                Item::Char(c) => c.len_utf8(),
                Item::Bad(b) => b.len().max(1),
                Item::End => 1,
            };
            if len > 1 && bounds.iter().any(|b| *b > q && *b < q + len) {
                out.split_chars += 1;
            }
            q += len;
        }
    }
    for (step, op) in ops.iter().enumerate() {
        out.ops += 1;
        match *op {
            b'p' | b'r' => {
                let want = reference(data, pos);
                let got = match observe(if *op == b'p' { cr.peek_char() } else { cr.read_char() }) {
                    Ok(g) => g,
                    Err(e) => {
                        out.violation = Some(format!("step {} op {}: {}", step, *op as char, e));
                        break;
                    }
                };
                if got != want {
                    out.violation = Some(format!("step {} op {} at byte {}: expected {:?}, got {:?}", step, *op as char, pos, want, got));
                    break;
                }
                match (&got, *op) {
                    (Item::Char(c), b'r') => {
                        pos += c.len_utf8();
                        last = Some(*c);
                        out.chars += 1;
                    }
                    (Item::Bad(b), b'r') => {
                        // read_char does not consume an invalid sequence: skip it as the stream layer does
                        cr.consume(b.len());
                        pos += b.len();
                        last = None;
                        out.bad += 1;
                    }
                    _ => {}
                }
            }
            b'b' => {
                if let Some(c) = last.take() {
                    cr.put_back_char(c);
                    pos -= c.len_utf8();
                    out.putbacks += 1;
                }
            }
            _ => {}
        }
    }
    out.reads = cr.get_ref().reads;
    out
}

fn gen_bytes(rng: &mut Rng) -> Vec<u8> {
    let mut v = vec![];
    let n = match rng.below(10) {
        0 => 0,
        1..=6 => 1 + rng.below(12),
        7 | 8 => 12 + rng.below(60),
        _ => 8180 + rng.below(30), // across the 8 KiB read size
    };
    let bulk = n > 1000;
    let mut k = 0;
    while (v.len() as u64) < n {
        k += 1;
        if bulk && (v.len() as u64) < n - 40 {
            // filler of mixed widths so that the tail lands at varying offsets
            let fill = ['a', 'é', '€', '𝄞'][(k % 4) as usize];
            let mut b = [0u8; 4];
            v.extend_from_slice(fill.encode_utf8(&mut b).as_bytes());
            continue;
        }
        match rng.below(16) {
            0..=4 => v.push(b'a' + rng.below(26) as u8),
            5 | 6 => v.extend_from_slice("é".as_bytes()),
            7 | 8 => v.extend_from_slice("€".as_bytes()),
            9 | 10 => v.extend_from_slice("𝄞".as_bytes()),
            11 => v.push(0x80 + rng.below(0x40) as u8),                 // lone continuation byte
            12 => {
                // truncated sequence
                let full = ["é".as_bytes(), "€".as_bytes(), "𝄞".as_bytes()][rng.below(3) as usize];
                let keep = 1 + rng.below(full.len() as u64 - 1) as usize;
                v.extend_from_slice(&full[..keep]);
            }
            13 => v.extend_from_slice(&[[0xC0, 0x80], [0xC1, 0xBF]][rng.below(2) as usize]),      // overlong
            14 => v.extend_from_slice(&[0xED, 0xA0 + rng.below(0x20) as u8, 0x80]),               // surrogate
            _ => v.push([0xF5u8, 0xFF, 0xFE, 0xF8][rng.below(4) as usize]),
        }
    }
    v
}

fn gen_chunks(rng: &mut Rng, len: usize) -> Vec<usize> {
    let mut v = vec![];
    let style = rng.below(5);
    let mut total = 0;
    while total < len {
        let c = match style {
            0 => 1,
            1 => 1 + rng.below(3) as usize,
            2 => 1 + rng.below(9) as usize,
            3 => if rng.below(4) == 0 { 8192 } else { 1 + rng.below(5) as usize },
            _ => len.max(1),
        };
        v.push(c);
        total += c;
    }
    v
}

fn gen_ops(rng: &mut Rng, len: usize) -> Vec<u8> {
    let n = len * 3 + 6;
    (0..n)
        .map(|_| match rng.below(10) {
            0..=2 => b'p',
            3..=7 => b'r',
            _ => b'b',
        })
        .collect()
}

fn hex(b: &[u8]) -> String {
    b.iter().map(|x| format!("{:02x}", x)).collect()
}

fn unhex(s: &str) -> Vec<u8> {
    (0..s.len() / 2).map(|i| u8::from_str_radix(&s[2 * i..2 * i + 2], 16).unwrap()).collect()
}

fn guarded(data: &[u8], chunks: &[usize], ops: &[u8]) -> Result<Outcome, String> {
    catch_unwind(AssertUnwindSafe(|| run_case(data, chunks, ops))).map_err(|e| {
        if let Some(s) = e.downcast_ref::<String>() {
            s.clone()
        } else if let Some(s) = e.downcast_ref::<&str>() {
            s.to_string()
        } else {
            "panic".to_string()
        }
    })
}

fn main() {
    let args: Vec<String> = std::env::args().collect();
    let loc = std::sync::Arc::new(std::sync::Mutex::new(String::new()));
    {
        let loc = loc.clone();
        std::panic::set_hook(Box::new(move |info| {
            if let Some(l) = info.location() {
                *loc.lock().unwrap() = format!("{}:{}", l.file(), l.line());
            }
        }));
    }
    if args.len() >= 5 && args[1] == "--replay" {
        let data = unhex(&args[2]);
        let chunks: Vec<usize> = args[3].split(',').filter(|s| !s.is_empty()).map(|s| s.parse().unwrap()).collect();
        let ops = args[4].as_bytes().to_vec();
        match guarded(&data, &chunks, &ops) {
            Ok(o) => match o.violation {
                Some(v) => println!("{}", serde_json::json!({"violation": v})),
                None => println!("{}", serde_json::json!({"ok": true, "chars": o.chars, "bad": o.bad})),
            },
            Err(p) => println!("{}", serde_json::json!({"panic": p, "at": *loc.lock().unwrap()})),
        }
        return;
    }
    let seed: u64 = args.get(1).and_then(|s| s.parse().ok()).unwrap_or(0);
    let cases: u64 = args.get(2).and_then(|s| s.parse().ok()).unwrap_or(1000);
    let mut rng = Rng(seed.wrapping_mul(0x2545F4914F6CDD1D) ^ 0xC18);
    let (mut ops_n, mut chars, mut bad, mut putbacks, mut reads, mut split, mut invalid_cases, mut long_cases, mut trunc_end) = (0usize, 0usize, 0usize, 0usize, 0usize, 0usize, 0usize, 0usize, 0usize);
    let mut violations = vec![];
    for _ in 0..cases {
        let data = gen_bytes(&mut rng);
        let chunks = gen_chunks(&mut rng, data.len());
        let ops = gen_ops(&mut rng, data.len().min(200));
        if std::str::from_utf8(&data).is_err() {
            invalid_cases += 1;
        }
        if data.len() > 1000 {
            long_cases += 1;
        }
        if let Err(e) = std::str::from_utf8(&data) {
            if e.error_len().is_none() {
                trunc_end += 1;
            }
        }
        // long data: read through the bulk first so that the operations reach the tail
        let mut all_ops = vec![];
        if data.len() > 1000 {
            all_ops.extend(std::iter::repeat(b'r').take(data.len() / 3));
        }
        all_ops.extend_from_slice(&ops);
        let res = guarded(&data, &chunks, &all_ops);
        let (kind, detail, at) = match res {
            Ok(o) => {
                ops_n += o.ops;
                chars += o.chars;
                bad += o.bad;
                putbacks += o.putbacks;
                reads += o.reads;
                split += o.split_chars;
                match o.violation {
                    None => continue,
                    Some(v) => ("decoding_differs_from_reference", v, String::new()),
                }
            }
            Err(p) => ("panic", p, loc.lock().unwrap().clone()),
        };
        if violations.len() < 40 {
            violations.push(serde_json::json!({"kind": kind, "detail": detail, "at": at, "bytes": hex(&data[data.len().saturating_sub(64)..]), "len": data.len(),
                "full_bytes": if data.len() <= 200 { hex(&data) } else { String::new() },
                "chunks": chunks.iter().take(80).map(|c| c.to_string()).collect::<Vec<_>>().join(","),
                "ops": String::from_utf8_lossy(&all_ops[..all_ops.len().min(700)]).to_string(),
                "truncated_at_end": std::str::from_utf8(&data).err().map(|e| e.error_len().is_none()).unwrap_or(false)}));
        }
    }
    println!(
        "{}",
        serde_json::json!({"cases": cases, "ops": ops_n, "chars": chars, "invalid_sequences_reported": bad, "putbacks": putbacks, "reads_of_source": reads,
            "multibyte_sequences_split_by_a_chunk_boundary": split, "cases_with_invalid_utf8": invalid_cases, "cases_over_8k": long_cases,
            "cases_truncated_at_end": trunc_end, "violations": violations})
    );
}
