//! The Scryer Prolog command line interface, built from the same library build
//! (hooks compiled in but never armed) as the in-process worker.
fn main() -> std::process::ExitCode {
    scryer_prolog::run_binary()
}
