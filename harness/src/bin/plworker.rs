//! In-process worker: one scryer `Machine` (built with the `verif` hooks), driven by
//! JSON-lines jobs on a dedicated pair of file descriptors (the engine itself prints
//! to the process stdout/stderr in places, so those are not used for the protocol).
//!
//! usage: plworker <job_fd> <reply_fd> <path/to/vt.pl>

use std::cell::RefCell;
use std::fs::File;
use std::io::{BufRead, BufReader, Read, Write};
use std::mem::ManuallyDrop;
use std::os::fd::FromRawFd;
use std::panic::{catch_unwind, AssertUnwindSafe};
use std::rc::Rc;
use std::sync::Mutex;

use scryer_prolog::verif;
use scryer_prolog::{LeafAnswer, Machine, MachineBuilder, StreamConfig, Term, UserInput};
use serde_json::{json, Value};

static LAST_PANIC: Mutex<Option<(String, String, u32)>> = Mutex::new(None);

struct Ctx {
    machine: Option<Machine>,
    input: Option<UserInput>,
    out: Rc<RefCell<Vec<u8>>>,
    err: Rc<RefCell<Vec<u8>>>,
    vt_text: String,
    machines_built: u64,
}

fn take_cb(buf: Rc<RefCell<Vec<u8>>>) -> Box<dyn FnMut(&mut std::io::Cursor<Vec<u8>>)> {
    Box::new(move |c: &mut std::io::Cursor<Vec<u8>>| {
        let mut v = Vec::new();
        let _ = c.read_to_end(&mut v);
        buf.borrow_mut().extend_from_slice(&v);
        c.get_mut().clear();
        c.set_position(0);
    })
}

impl Ctx {
    fn build(&mut self) {
        if let Some(m) = self.machine.take() {
            // never run destructors of a machine we abandon: it may be poisoned.
            std::mem::forget(m);
        }
        let (input, streams) = StreamConfig::from_callbacks(
            Some(take_cb(self.out.clone())),
            Some(take_cb(self.err.clone())),
        );
        let mut m = MachineBuilder::default().with_streams(streams).build();
        m.load_module_string("vt", self.vt_text.clone());
        self.machine = Some(m);
        self.input = Some(input);
        self.machines_built += 1;
        self.out.borrow_mut().clear();
        self.err.borrow_mut().clear();
    }
    fn m(&mut self) -> &mut Machine {
        if self.machine.is_none() {
            self.build();
        }
        self.machine.as_mut().unwrap()
    }
}

fn esc_dq(s: &str) -> String {
    let mut o = String::with_capacity(s.len() + 8);
    for ch in s.chars() {
        match ch {
            '\\' => o.push_str("\\\\"),
            '"' => o.push_str("\\\""),
            '\n' => o.push_str("\\n"),
            '\t' => o.push_str("\\t"),
            '\r' => o.push_str("\\r"),
            c if (c as u32) < 0x20 || c as u32 == 0x7f => {
                o.push_str(&format!("\\x{:x}\\", c as u32));
            }
            c => o.push(c),
        }
    }
    o
}

fn term_json(t: &Term) -> Value {
    match t {
        Term::Integer(i) => json!({"i": i.to_string()}),
        Term::Rational(r) => json!({"r": r.to_string()}),
        Term::Float(f) => json!({"f": format!("{:?}", f), "bits": f.to_bits().to_string()}),
        Term::Atom(a) => json!({"a": a}),
        Term::String(s) => json!({"s": s}),
        Term::List(l) => json!({"l": l.iter().map(term_json).collect::<Vec<_>>()}),
        Term::Compound(f, args) => {
            json!({"c": f, "args": args.iter().map(term_json).collect::<Vec<_>>()})
        }
        Term::Var(v) => json!({"v": v}),
        _ => json!({"other": format!("{:?}", t)}),
    }
}

fn answer_json(a: &Result<LeafAnswer, Term>) -> Value {
    match a {
        Ok(LeafAnswer::True) => json!({"k": "true"}),
        Ok(LeafAnswer::False) => json!({"k": "false"}),
        Ok(LeafAnswer::Exception(t)) => json!({"k": "exception", "t": term_json(t)}),
        Ok(LeafAnswer::LeafAnswer { bindings, .. }) => {
            let mut m = serde_json::Map::new();
            for (k, v) in bindings.iter() {
                m.insert(k.clone(), term_json(v));
            }
            json!({"k": "bindings", "b": Value::Object(m)})
        }
        Err(t) => json!({"k": "error", "t": term_json(t)}),
    }
}

fn footprint_json(m: &Machine) -> Value {
    let f = m.verif_footprint();
    json!({
        "heap_cells": f.heap_cells, "heap_byte_len": f.heap_byte_len, "heap_byte_cap": f.heap_byte_cap,
        "stack_top": f.stack_top, "b": f.b, "e": f.e, "block": f.block, "scc_block": f.scc_block,
        "trail_len": f.trail_len, "tr": f.tr, "load_contexts": f.load_contexts,
        "inactive_load_states": f.inactive_load_states, "f64_entries": f.f64_entries,
        "atom_table_entries": f.atom_table_entries, "code_len": f.code_len,
        "lifted_heap_cells": f.lifted_heap_cells, "ball_cells": f.ball_cells,
        "ball_stack_len": f.ball_stack_len, "cont_pts": f.cont_pts, "attr_var_queue": f.attr_var_queue,
        "global_clock": f.global_clock, "inferences": f.inferences.to_string(),
        "throwing_resource_error": f.throwing_resource_error, "tabu_list": f.tabu_list, "pdl": f.pdl,
    })
}

/// Runs a query to completion (or for `take` answers, after which the iterator is
/// dropped) and returns the serialised answers.
fn raw_query(m: &mut Machine, q: &str, take: Option<u64>) -> Vec<Value> {
    let mut qs = ManuallyDrop::new(m.run_query(q.to_string()));
    let mut out = Vec::new();
    let mut n = 0u64;
    loop {
        if let Some(t) = take {
            if n >= t {
                break;
            }
        }
        match qs.next() {
            None => {
                out.push(json!({"k": "end"}));
                break;
            }
            Some(a) => {
                out.push(answer_json(&a));
                n += 1;
            }
        }
    }
    unsafe { ManuallyDrop::drop(&mut qs) };
    out
}

fn handle(ctx: &mut Ctx, job: &Value) -> Value {
    let op = job["op"].as_str().unwrap_or("");
    match op {
        "new" => {
            ctx.build();
            json!({})
        }
        "load" | "consult" => {
            let module = job["module"].as_str().unwrap_or("user").to_string();
            let text = job["text"].as_str().unwrap_or("").to_string();
            let m = ctx.m();
            if op == "load" {
                m.load_module_string(&module, text);
            } else {
                m.consult_module_string(&module, text);
            }
            json!({})
        }
        "run" => {
            // goal text is handed to vt:run/2 as data
            let goal = job["goal"].as_str().unwrap_or("true.");
            let limit = job["limit"].as_u64().unwrap_or(1000);
            let pred = job["pred"].as_str().unwrap_or("run");
            let q = format!("vt:{}(\"{}\", {}).", pred, esc_dq(goal), limit);
            let m = ctx.m();
            let ans = raw_query(m, &q, None);
            json!({ "raw": ans })
        }
        "raw" => {
            let q = job["query"].as_str().unwrap_or("true.").to_string();
            let take = job["take"].as_u64();
            let m = ctx.m();
            let ans = raw_query(m, &q, take);
            json!({ "raw": ans })
        }
        "arm_alloc" => {
            let _ = ctx.m();
            verif::arm_alloc_fail(
                job["k"].as_u64().unwrap_or(0),
                job["sticky"].as_bool().unwrap_or(false),
            );
            json!({})
        }
        "arm_int" => {
            let _ = ctx.m();
            verif::arm_interrupt(job["n"].as_u64().unwrap_or(0));
            json!({})
        }
        "clear_int" => {
            let was = verif::clear_interrupt_flag();
            json!({ "was_pending": was })
        }
        "leave_free" => {
            let r = job["r"].as_u64().unwrap_or(0) as usize;
            let ok = ctx.m().verif_heap_leave_free(r);
            json!({ "left": ok })
        }
        "counters" => {
            let (ga, gf) = verif::alloc_counters();
            let (t, ra, da, nd) = verif::interrupt_counters();
            json!({"growth_attempts": ga, "growth_failed": gf, "ticks": t,
                   "int_raised_at": ra, "int_delivered_at": da, "int_deliveries": nd})
        }
        "footprint" => {
            let m = ctx.m();
            json!({ "fp": footprint_json(m) })
        }
        "stdin" => {
            let _ = ctx.m();
            let bytes: Vec<u8> = if let Some(t) = job["text"].as_str() {
                t.as_bytes().to_vec()
            } else {
                job["bytes"]
                    .as_array()
                    .map(|a| a.iter().map(|x| x.as_u64().unwrap_or(0) as u8).collect())
                    .unwrap_or_default()
            };
            let r = ctx.input.as_mut().unwrap().write(&bytes);
            json!({ "written": r.is_ok() })
        }
        "stdin_close" => {
            ctx.input = None;
            json!({})
        }
        "ping" => json!({"pong": true}),
        _ => json!({"bad_op": op}),
    }
}

fn worker_main(job_fd: i32, reply_fd: i32, vt_path: String) {
    let jobs = unsafe { File::from_raw_fd(job_fd) };
    let mut replies = unsafe { File::from_raw_fd(reply_fd) };
    let vt_text = std::fs::read_to_string(&vt_path).expect("cannot read vt.pl");
    let mut ctx = Ctx {
        machine: None,
        input: None,
        out: Rc::new(RefCell::new(Vec::new())),
        err: Rc::new(RefCell::new(Vec::new())),
        vt_text,
        machines_built: 0,
    };
    let reader = BufReader::new(jobs);
    for line in reader.lines() {
        let Ok(line) = line else { break };
        if line.trim().is_empty() {
            continue;
        }
        let job: Value = match serde_json::from_str(&line) {
            Ok(v) => v,
            Err(e) => {
                let _ = writeln!(replies, "{}", json!({"harness_error": e.to_string()}));
                continue;
            }
        };
        if job["op"].as_str() == Some("quit") {
            break;
        }
        *LAST_PANIC.lock().unwrap() = None;
        let want_fp = job["fp"].as_bool().unwrap_or(false);
        let res = catch_unwind(AssertUnwindSafe(|| handle(&mut ctx, &job)));
        let mut reply = match res {
            Ok(v) => v,
            Err(_) => {
                let p = LAST_PANIC.lock().unwrap().take();
                if let Some(m) = ctx.machine.take() {
                    std::mem::forget(m);
                }
                // an armed hook must not leak into the next machine
                verif::arm_alloc_fail(0, false);
                verif::arm_interrupt(0);
                verif::clear_interrupt_flag();
                let (msg, file, line) = p.unwrap_or(("?".into(), "?".into(), 0));
                json!({"panic": {"msg": msg, "file": file, "line": line}})
            }
        };
        {
            let obj = reply.as_object_mut().unwrap();
            if let Some(id) = job.get("id") {
                obj.insert("id".into(), id.clone());
            }
            let out = std::mem::take(&mut *ctx.out.borrow_mut());
            let err = std::mem::take(&mut *ctx.err.borrow_mut());
            obj.insert("out".into(), json!(String::from_utf8_lossy(&out)));
            if !err.is_empty() {
                obj.insert("err".into(), json!(String::from_utf8_lossy(&err)));
            }
            obj.insert("mb".into(), json!(ctx.machines_built));
            let (t, _, _, _) = verif::interrupt_counters();
            obj.insert("ticks".into(), json!(t));
            if let Some(m) = ctx.machine.as_ref() {
                let f = m.verif_footprint();
                // C33's invariant is read after every job of every property
                obj.insert("hl".into(), json!(f.heap_byte_len));
                obj.insert("hc".into(), json!(f.heap_byte_cap));
                if want_fp {
                    obj.insert("fp".into(), footprint_json(m));
                }
            }
        }
        if writeln!(replies, "{}", reply).is_err() {
            break;
        }
        let _ = replies.flush();
    }
}

fn main() {
    let args: Vec<String> = std::env::args().collect();
    if args.len() < 4 {
        eprintln!("usage: plworker <job_fd> <reply_fd> <vt.pl>");
        std::process::exit(2);
    }
    let job_fd: i32 = args[1].parse().unwrap();
    let reply_fd: i32 = args[2].parse().unwrap();
    let vt = args[3].clone();
    std::panic::set_hook(Box::new(|info| {
        let msg = if let Some(s) = info.payload().downcast_ref::<&str>() {
            s.to_string()
        } else if let Some(s) = info.payload().downcast_ref::<String>() {
            s.clone()
        } else {
            "<non-string panic payload>".to_string()
        };
        let (file, line) = info
            .location()
            .map(|l| (l.file().to_string(), l.line()))
            .unwrap_or(("?".into(), 0));
        if let Ok(mut g) = LAST_PANIC.lock() {
            *g = Some((msg, file, line));
        }
    }));
    let h = std::thread::Builder::new()
        .stack_size(1 << 30)
        .spawn(move || worker_main(job_fd, reply_fd, vt))
        .unwrap();
    let _ = h.join();
}
