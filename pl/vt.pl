/* vt.pl -- Prolog side of the verification harness.

   run(+GoalChars, +Limit): reads one goal from GoalChars, iterates its solutions
   (at most Limit), and dumps each solution in a small operator-free syntax that
   the Python side parses (vt/terms.py):

     S [Name=Dump,...] ~ [ResidualGoalDump,...]     one line per solution
     D                                             (after an S line) solution left no choice point
     E exhausted | E more | E exception(Dump) | P Dump   end marker

   The dumper walks the term with functor/3 and arg/3 and calls writeq/1 only on
   atomic leaves.
*/

:- module(vt, [run/2, rund/2, runr/2, dump/1, dumpnl/1, w/1, w/2]).

:- use_module(library(charsio)).
:- use_module(library(iso_ext)).
:- use_module(library(arithmetic)).

run(Chars, Limit) :-
    run_(Chars, Limit, false).

% like run/2 but only the binding of the variable named R is dumped (other
% bindings may be huge or cyclic)
runr(Chars, Limit) :-
    run_(Chars, Limit, only_r).

% like run/2 but reports determinism of each solution (a D line)
rund(Chars, Limit) :-
    run_(Chars, Limit, true).

% the goal text arrives as a double-quoted literal, so its shape follows the
% double_quotes flag of the machine under test (C44 changes that flag)
goal_chars(Text, Chars) :-
    (   atom(Text), Text \== [] -> atom_chars(Text, Chars)
    ;   Text = [C|_], integer(C) -> atom_codes(A, Text), atom_chars(A, Chars)
    ;   Chars = Text
    ).

run_(Chars0, Limit, Det) :-
    goal_chars(Chars0, Chars),
    catch(read_term_from_chars(Chars, Goal, [variable_names(VNs)]), PE, true),
    (   nonvar(PE) ->
        write('P '), dump(PE), nl
    ;   bb_put('$vt_n', 0),
        catch(run_loop(Goal, VNs, Limit, Det), Ball, (write('E exception('), dump(Ball), write(')'), nl))
    ),
    flush_output.

run_loop(Goal, VNs, Limit, Det) :-
    (   (   Det == true ->
            call_cleanup(user:Goal, IsDet = true)
        ;   call(user:Goal)
        ),
        bb_get('$vt_n', N0),
        N is N0 + 1,
        bb_put('$vt_n', N),
        (   Det == only_r -> only_r(VNs, VNs1) ; VNs1 = VNs ),
        write('S '), dump(VNs1), nl,
        (   IsDet == true -> write('D'), nl ; true ),
        N >= Limit,
        !,
        write('E more'), nl
    ;   write('E exhausted'), nl
    ).

only_r([], []).
only_r([N=V|VNs], Out) :-
    (   N == 'R' -> Out = [N=V] ; only_r(VNs, Out) ).

dumpnl(T) :- dump(T), nl.

dump(T) :-
    \+ \+ dump_(T).

dump_(T) :-
    % no acyclic_term/1 here: on this tree it damages strings nested in the term (K15)
    copy_term(T, C, Gs),
    term_variables(C-Gs, Vs),
    name_vars(Vs, 0),
    w(C, 4000),
    (   Gs == [] -> true
    ;   write(' ~ '), w(Gs, 4000)
    ).

name_vars([], _).
name_vars(['$v'(N)|Vs], N) :-
    N1 is N + 1,
    name_vars(Vs, N1).

w(T) :- w(T, 4000).

% w(Term, DepthBudget): a (sub)term nested deeper than the budget is printed as
% '$deep' (only cyclic or pathological terms get there)
w(T, _) :- var(T), !, write('_Unnamed').
w(_, D) :- D =< 0, !, write('\'$deep\'').
w('$v'(K), _) :- integer(K), !, write('_G'), write(K).
w(T, _) :- integer(T), !, writeq(T).
w(T, _) :- float(T), !, writeq(T).
w(T, _) :- rational(T), !,
    rational_numerator_denominator(T, N, D),
    write('\'$r\'('), writeq(N), write(','), writeq(D), write(')').
w(T, _) :- atom(T), !, writeq(T).
w([H|T], D) :- !,
    D1 is D - 1,
    write('['), w(H, D1), wl(T, D1, 3000000), write(']').
w(T, D) :-
    functor(T, N, A),
    D1 is D - 1,
    writeq(N), write('('),
    wargs(1, A, T, D1),
    write(')').

wargs(I, A, T, D) :-
    arg(I, T, X),
    w(X, D),
    (   I < A ->
        write(','),
        I1 is I + 1,
        wargs(I1, A, T, D)
    ;   true
    ).

wl(T, _, _) :- var(T), !, write('|_Unnamed').
wl([], _, _) :- !.
wl(_, _, N) :- N =< 0, !, write('|\'$deep\'').
wl('$v'(K), D, _) :- integer(K), !, write('|'), w('$v'(K), D).
wl([H|T], D, N) :- !, write(','), w(H, D), N1 is N - 1, wl(T, D, N1).
wl(T, D, _) :- write('|'), w(T, D).
